"""C12 - expressions parse with the documented precedence and grouping."""
import itertools
from runner import Prop, Case
import vlib

# documented binding order, highest first (index/call, prefix, %, **, * /, + -, comparisons, == !=, && ||, range, ternary)
LEVELS = [("%",), ("**",), ("*", "/"), ("+", "-"), ("<", "<=", ">", ">=", "~=", "!~", "in"), ("==", "!="), ("&&", "||"), ("..",)]
PREC = {}
for i, ops in enumerate(LEVELS):
    for o in ops:
        PREC[o] = 100 - 10 * i
BINOPS = [o for ops in LEVELS for o in ops]
PREFIX_PREC = 110
POSTFIX_PREC = 120      # index, call, member
TERNARY_PREC = 5

# tree: ("id", name) | ("int", n) | ("str", s) | ("bin", op, l, r) | ("pre", op, e) | ("idx", l, i) | ("call", name, [args])
#       | ("dot", l, name) | ("tern", c, t, f)
def prec(t):
    k = t[0]
    if k == "bin":
        return PREC[t[1]]
    if k == "pre":
        return PREFIX_PREC
    if k == "tern":
        return TERNARY_PREC
    return 200

def show(t, mode, rng, parent=0, right=False):
    """mode: 'min' (only the parentheses the rules require), 'full' (around every compound node),
       'red' (minimal plus random redundant ones)"""
    k = t[0]
    if k == "id":
        s = t[1]
    elif k == "int":
        s = str(t[1])
    elif k == "str":
        s = '"%s"' % t[1]
    elif k == "arr":
        s = "[" + ", ".join(show(x, mode, rng, 0, False) for x in t[1]) + "]"
    elif k == "hash":
        s = "{" + ", ".join('"%s": %s' % (kk, show(x, mode, rng, 0, False)) for kk, x in t[1]) + "}"
    elif k == "bin":
        p = PREC[t[1]]
        ls = show(t[2], mode, rng, p, False)
        if t[1] == "/" and (ls.endswith('"') or ls.endswith('}')):
            ls = "(" + ls + ")"          # `/` directly after a string literal would start a regexp (C14)
        s = "%s %s %s" % (ls, t[1], show(t[3], mode, rng, p, True))
    elif k == "pre":
        s = "%s%s" % (t[1], show(t[2], mode, rng, PREFIX_PREC, False))
    elif k == "idx":
        s = "%s[%s]" % (show(t[1], mode, rng, POSTFIX_PREC, False), show(t[2], mode, rng, 0, False))
    elif k == "dot":
        s = "%s.%s" % (show(t[1], mode, rng, POSTFIX_PREC, False), t[2])
    elif k == "call":
        s = "%s(%s)" % (t[1], ", ".join(show(a, mode, rng, 0, False) for a in t[2]))
    elif k == "tern":
        s = "%s ? %s : %s" % (show(t[1], mode, rng, TERNARY_PREC + 1, False), show(t[2], mode, rng, 0, False), show(t[3], mode, rng, 0, False))
    compound = k in ("bin", "pre", "tern")
    mine = prec(t)
    need = compound and (mine < parent or (mine == parent and right))
    if k == "pre" and parent == PREFIX_PREC:
        need = False                     # --a would lex as the decrement operator: handled by a space below
    if need or (mode == "full" and compound) or (mode == "red" and rng.random() < 0.3):
        return "(" + s + ")"
    if k == "pre" and parent == PREFIX_PREC:
        return " " + s
    return s

def dump(t):
    """the canonical tree dump of harness/astdump.go for this tree (what the property demands)"""
    k = t[0]
    hx = vlib.hx
    if k == "id":
        return "(id %s)" % hx(t[1])
    if k == "int":
        return "(int %s %d)" % (hx(str(t[1])), t[1])
    if k == "str":
        return "(str %s)" % hx(t[1])
    if k == "arr":
        return "(arr%s)" % "".join(" " + dump(x) for x in t[1])
    if k == "hash":
        return "(hash%s)" % "".join(" (%s %s)" % (dump(("str", kk)), dump(x)) for kk, x in t[1])
    if k == "bin":
        return "(in %s %s %s)" % (hx(t[1]), dump(t[2]), dump(t[3]))
    if k == "pre":
        return "(pre %s %s)" % (hx(t[1]), dump(t[2]))
    if k == "idx":
        return "(idx %s %s)" % (dump(t[1]), dump(t[2]))
    if k == "dot":
        return "(in %s %s (id %s))" % (hx("."), dump(t[1]), hx(t[2]))      # the member name stays the identifier that was written (D39 repaired)
    if k == "call":
        return "(call (id %s)%s)" % (hx(t[1]), "".join(" " + dump(a) for a in t[2]))
    if k == "tern":
        return "(tern %s %s %s)" % (dump(t[1]), dump(t[2]), dump(t[3]))

def rand_tree(rng, depth, allow_tern=True):
    r = rng.random()
    if depth <= 0 or r < 0.2:
        k = rng.random()
        if k < 0.5:
            return ("id", rng.choice("abcxyz"))
        if k < 0.8:
            return ("int", rng.choice([0, 1, 2, 7, 42]))
        return ("str", rng.choice(["s", "", "a b"]))
    if r < 0.72:
        return ("bin", rng.choice(BINOPS), rand_tree(rng, depth - 1, False), rand_tree(rng, depth - 1, False))
    if r < 0.82:
        return ("pre", rng.choice(["-", "!", "√"]), rand_tree(rng, depth - 1, False))
    if r < 0.88:
        return ("idx", rand_postfix_base(rng, depth - 1), rand_tree(rng, depth - 1, False))
    if r < 0.92:
        return ("dot", rand_postfix_base(rng, depth - 1), rng.choice(["f", "g"]))
    if r < 0.97 or not allow_tern:
        return ("call", rng.choice(["f", "g", "len"]), [rand_tree(rng, depth - 1, False) for _ in range(rng.randint(0, 3))])
    return ("tern", rand_tree(rng, depth - 1, False), rand_tree(rng, depth - 1, False), rand_tree(rng, depth - 1, False))

def rand_postfix_base(rng, depth):
    t = rand_tree(rng, depth, False)
    return t

class C12(Prop):
    id = "C12"
    compare_obs = ("parse", "ast")
    property_obs = ("parse", "ast")
    rule = ("all ordered pairs and triples of binary operators over fixed atoms, prefix/infix/postfix combinations, and random "
            "expression trees to depth 5, each printed three ways (minimal parentheses by the documented order, redundant parentheses, "
            "full parentheses); the parser's tree must be THE tree that was printed (computed in the generator, independent of the "
            "model), hence identical across the three spellings; nested ternaries must be rejected. non-trivial = at least 2 operators")

    def cases(self, rng, tier):
        out = []
        gid = 0
        def add(tree, stream):
            nonlocal gid
            gid += 1
            exp = "(prog (es %s))" % dump(tree)
            nops = exp.count("(in ") + exp.count("(pre ") + exp.count("(tern ")
            for mode in ("min", "full", "red"):
                src = show(tree, mode, rng) + ";"
                out.append(Case("parse", {"script": vlib.hx(src)}, stream + "-" + mode, expect={"parse": "ok", "ast": exp},
                                nontrivial=nops >= 2, group="T%d" % gid, note=src))
        A, B, C, D = ("id", "a"), ("id", "b"), ("int", 1), ("id", "d")
        for o1, o2 in itertools.product(BINOPS, repeat=2):
            add(("bin", o2, ("bin", o1, A, B), C), "pairs")          # (a o1 b) o2 c
            add(("bin", o1, A, ("bin", o2, B, C)), "pairs")          # a o1 (b o2 c)
        triples = list(itertools.product(BINOPS, repeat=3))
        if tier == "quick":
            triples = rng.sample(triples, 600)
        for o1, o2, o3 in triples:
            shape = rng.randrange(5)
            t = [("bin", o3, ("bin", o2, ("bin", o1, A, B), C), D), ("bin", o1, A, ("bin", o2, B, ("bin", o3, C, D))),
                 ("bin", o2, ("bin", o1, A, B), ("bin", o3, C, D)), ("bin", o3, ("bin", o1, A, ("bin", o2, B, C)), D),
                 ("bin", o1, A, ("bin", o3, ("bin", o2, B, C), D))][shape]
            add(t, "triples")
        for op in BINOPS:
            for pre in ["-", "!", "√"]:
                add(("bin", op, ("pre", pre, A), B), "prefix")
                add(("pre", pre, ("bin", op, A, B)), "prefix")
                add(("bin", op, A, ("pre", pre, B)), "prefix")
            add(("bin", op, ("idx", A, C), ("call", "f", [B])), "postfix")
            add(("idx", ("bin", op, A, B), C), "postfix")
            add(("bin", op, ("dot", A, "f"), B), "postfix")
            add(("tern", ("bin", op, A, B), C, D), "ternary")
            add(("tern", A, ("bin", op, B, C), ("bin", op, C, D)), "ternary")
        # array and hash literals as operands: what follows them (index, member, call, infix) applies to the literal
        H, L = ("hash", [("a", ("int", 5)), ("b", ("id", "b"))]), ("arr", [("int", 1), ("id", "a")])
        for lit_ in (H, L):
            add(("idx", lit_, ("str", "a")), "literal-operand")
            add(("dot", lit_, "a"), "literal-operand")
            for op in BINOPS:
                add(("bin", op, ("idx", lit_, ("str", "a")), C), "literal-operand")
                add(("bin", op, lit_, C), "literal-operand")
                add(("bin", op, A, lit_), "literal-operand")
                add(("bin", op, A, ("idx", lit_, C)), "literal-operand")
            add(("tern", ("idx", lit_, C), lit_, ("idx", lit_, A)), "literal-operand")
            add(("call", "f", [lit_, ("idx", lit_, C)]), "literal-operand")
        n = 100000 if tier == "thorough" else 1200
        for _ in range(n):
            add(rand_tree(rng, rng.choice([2, 3, 4, 5])), "random")
        # postfix ++ / --: redundant parentheses around the variable (known finding D43: the operator takes the token before it)
        for v in ("x", "a"):
            for op in ("++", "--"):
                gid += 1
                for src in ("%s = 1; %s%s;" % (v, v, op), "%s = 1; (%s)%s;" % (v, v, op), "%s = 1; ((%s))%s;" % (v, v, op)):
                    c = Case("parse", {"script": vlib.hx(src)}, "postfix-parens", expect={"parse": "ok"}, group="T%d" % gid, note=src)
                    c.tags.add("parenthesised-postfix-operand")
                    out.append(c)
        # nested ternaries are rejected, in either arm, also inside parentheses
        for src in ["a ? b ? 1 : 2 : 3;", "a ? 1 : b ? 2 : 3;", "a ? (b ? 1 : 2) : 3;", "a ? 1 : (b ? 2 : 3);", "x = a ? f(b ? 1 : 2) : 3;",
                    "a ? [b ? 1 : 2] : 3;"]:
            out.append(Case("parse", {"script": vlib.hx(src)}, "nested-ternary", expect={"parse": "reject"}, note=src))
        # ... but a ternary in the condition position is a new ternary
        out.append(Case("parse", {"script": vlib.hx("(a ? b : c) ? 1 : 2;")}, "nested-ternary",
                        expect={"parse": "ok", "ast": "(prog (es %s))" % dump(("tern", ("tern", ("id", "a"), ("id", "b"), ("id", "c")), ("int", 1), ("int", 2)))}))
        return out

    def judge_groups(self, groups, go):
        out = []
        for name, cs in groups.items():
            asts = set((go.get(c.cid) or {}).get("ast") for c in cs)
            if len(asts) > 1:
                out.append((cs[0], "the same expression with minimal / redundant / full parentheses parses to different trees"))
        return out

    def in_class(self, klass, case):
        return klass == "parenthesised-postfix-operand" and "parenthesised-postfix-operand" in case.tags

PROP = C12()

"""C13 - a script that cannot be fully translated is rejected by Prepare."""
from runner import Prop, Case
import vlib, os

# invalid fragments; "stmt" fragments stand where a statement may stand, "expr" where an expression may
INVALID_STMT = [
    "return 1;\x00 garbage(((", "x = 1;\x00", "x = 1; \x00 y = 2;",
    'x = "unterminated;', "x = 'unterminated;", "x = /unterminated;", "if (a) { x = 1;", "while (a) { x = 1;",
    "foreach v in [1] { x = v;", "function q(a, b { return a; }", "function q(a, b", "switch (a) { case 1 { x = 1; }",
    "switch (a) { case 1 { x = 1; ", "x = 1 + ;", "x = * 2;", "x = (1 + 2;", "x = [1, 2;", 'x = {"a": 1;', 'x = {"a" 1};',
    "3 = 4;", '"s" = 1;', "f() = 2;", "a[0] = 1;", "3 += 4;", "(1) -= 1;", '"s" *= 2;', "a.b /= 2;", "local z;",
    "x = a ? b ? 1 : 2 : 3;", "x = a ? 1 : b ? 2 : 3;", "x = a ? 1 2;", "x = #;", "x = 1 @ 2;", "x = 1 & 2;", "x = 1 | 2;",
    "x = 1 ~ 2;", "x = \x00;", "foreach 3 in [1] { }", 'foreach "s" in [1] { }', "foreach v, 3 in [1] { }", "foreach v [1] { }",
    "foreach v in [1] x = 1; }", "function 3() { }", "function q(3) { }", "function q(#) { }", 'function "q"() { }',
    "if a { x = 1; }", "if (a) x = 1;", "while a { }", "switch a { }", "switch (a) { foo { } }",
    "switch (a) { default { } default { } }", "return 1", "return;", "x = /a/x;", "x = 1 +* 2;", "else { x = 1; }", "x = ;",
    "case 1 { }", "x = 99999999999999999999;",
    # constructs that leave no value, where a value is needed
    "a = b = 3;", "y = x++;", "x += 1 + 2;", "return (x = 1);", "z = if (c) { 1; };", "z = while (c) { };", "return foreach v in [1] { };",
    "y = function ff() { return 1; };", "return switch (1) { case 2 { 1; } };", "x = 1 + (y = 2);", "t(x = 1);", "x = [y = 1];", "return x -= 1;",
    "if (x = 1) { }", "while (x++) { }", "z = local w;",
    # parameter lists that are never closed, with one or more stray tokens before the body
    "function q(a b { }", "function q(a, b c { x = 1; }", "function q(a 1 { }", 'function q(a "s" { }', "function q(a ; { }", "function q(a b c { }", "function q(a, { }", "function q(a = { }", "x = [1,, 2];", "x = f(1,, 2);", "x = f(1;", "}", "x = 1; }", "x = (;", "x = );",
]
INVALID_EXPR = ['"unterminated', "/unterminated", "(1 + ", "[1, 2", '{"a": 1', "1 + ", "* 2", "a ? b ? 1 : 2 : 3", "#", "1 @ 2", "\x00",
                "99999999999999999999", "(3 = 4)", "f(1,, 2)", ")", "if", "(a ? 1 : b ? 2 : 3)", "(1 += 2)", '("s" -= 1)', "[1 *= 2]"]
# a ternary inside an arm of another one is a nested ternary wherever it stands there: in a call argument, an array or hash element, an index
INVALID_EXPR += ["(a ? f(b ? 1 : 2) : 3)", "(a ? 1 : f(0, b ? 1 : 2))", "(a ? [b ? 1 : 2] : 3)", "(a ? 1 : [0, b ? 1 : 2])", '(a ? len(c ? "a" : "bb") : 3)', '(a ? {"k": b ? 1 : 2} : 3)',
                 "(a ? x[b ? 1 : 2] : 3)", "(a ? f(g(b ? 1 : 2)) : 3)", "(a ? [[b ? 1 : 2]] : 3)"]
# characters that are no part of the language, written BETWEEN two tokens (blanks that are not the language's four blanks included)
INVALID_EXPR += ["1 %s+ 2" % ch for ch in ["\x0b", "\x0c", "\x85", "\xa0", "\u2028", "\u2029", "\u3000", "\u1680", "\u2003", "\ufeff", "\x01", "\x7f", "\\", "&", "|", "~", "^", "`", "\u200b", "\x1c"]]
# positions whose expression the compiler never translates (it only prints it): the right operand of `.` and the callee of a call
REPEATED_KEY_CONTEXTS = ['x = {"k": 1, "k": %s};', "x = {1: 0, 1: %s};", 'return {"a": 1, "b": 2, "a": %s};', 'x = f({true: 1, true: %s});']
UNCOMPILED_CONTEXTS = ["x = a.%s;", "x = %s(3);", "return a.%s;", "if (a.%s) { x = 1; }", "x = f(1)%s;" if False else "x = a[0].%s;", "function q() { return %s(); }"]
COMPILE_INVALID = ["(1 += 2)", '("s" -= 1)', "[1 *= 2]", "(f() /= 2)"]
VALID_STMT = ["x = 1;", 'x = "s";', "x++;", "x += 2;", "t(x);", "if (x) { y = 1; } else { y = 2; }", "foreach v in [1] { y = v; }",
              "while (x < 0) { x++; }", "switch (x) { case 1 { y = 1; } default { y = 2; } }", "x = a ? 1 : 2;", "x = /re/i;", "return 1;"]
VALID_EXPR = ["1", '"s"', "a + 1", "(a)", "[1, 2]", '{"a": 1}', "f(1)", "a[0]", "a.b", "-a", "!a", "/re/", "a.b.c", 'a."k"', "a.(b)", "a.b[0]", "a.(1 + 2)", "a.b(1)"]

STMT_CONTEXTS = [
    "%s", "x0 = 0; %s y0 = 0;", "if (c) { %s }", "if (c) { x0 = 1; } else { %s }", "if (c) { } else if (d) { %s }",
    "while (c) { %s }", "for (c) { %s }", "foreach v in [1, 2] { %s }", "foreach i, v in m { %s }", "function q(a) { %s }",
    "switch (c) { case 1 { %s } }", "switch (c) { case 1 { } default { %s } }", "function q() { if (c) { foreach v in a { %s } } }",
    # after a `return` in the same block: unreachable is not the same as untranslatable
    "if (c) { return 1; %s }", "if (c) { x0 = 1; } else { return 2; %s }", "while (c) { return 1; %s }", "foreach v in [1, 2] { return v; %s }",
    "function q(a) { return a; %s }", "switch (c) { case 1 { return 1; %s } }", "switch (c) { default { return 1; %s } }",
    "function q() { if (c) { return 1; %s } return 2; }",
]
EXPR_CONTEXTS = [
    "x = %s;", "return %s;", "if (%s) { x = 1; }", "while (%s) { x = 1; }", "x = c ? %s : 2;", "x = c ? 1 : %s;", "x = f(%s);",
    "x = f(1, %s, 3);", "x = [1, %s];", 'x = {"k": %s};', "x = {%s: 1};", "x = a[%s];", "foreach v in %s { x = 1; }",
    "switch (%s) { case 1 { } }", "switch (c) { case %s { } }", "x = 1 + %s;", "x = - %s;", "x = (%s);",
]

PREFIXES = [
    "function zz(a) { local q; q = a; return q; } ", "function zz() { return 1; } function yy(b) { return b; } ", "if (c) { x9 = 1; } else { x9 = 2; } ",
    "foreach v9 in [1] { x9 = v9; } ", "x9 = c ? 1 : 2; ", "switch (c) { case 1 { x9 = 1; } default { x9 = 2; } } ", "while (false) { x9 = 1; } ",
    "function zz(a) { function inner() { local w; return 1; } return a; } ", "x9 = [1, {\"k\": (2)}][0]; ",
]

class C13(Prop):
    id = "C13"
    compare_run = True
    property_obs = ("prep", "crash", "unit", "class")
    rule = ("exhaustive product of invalid fragments (unterminated string/regexp/block/parameter list/switch, missing operands, "
            "assignment and each compound assignment to a non-variable, local outside a function, nested ternaries, illegal characters, "
            "embedded NUL, non-identifier loop variables / parameters / function names, missing braces, bad regexp flags, integer overflow) "
            "x enclosing contexts (top level, if/else/else-if/while/for/foreach/function/switch-arm bodies; ternary arms, call arguments, "
            "array and hash elements, index expressions, loop heads, case labels) at nesting depth 1-3, plus every token-boundary truncation "
            "of valid corpus scripts that leaves a bracket open: Prepare must return an error; the same contexts with valid fragments must "
            "be accepted; every invalid case is repeated after (and between) complete valid constructs - function definitions, loops, "
            "switches, ternaries - so that parser state left behind by earlier constructs is exercised. Expectations come from the generator. non-trivial = fragment nested in at least one construct")

    def cases(self, rng, tier):
        out = []
        def case(src, ok, stream, nontrivial=True):
            ops = "prepare:" + rng.choice(["opt", "noopt"])
            exp = {"o0.prep": "ok" if ok else "error"}
            if rng.random() < 0.25:
                # preparing the same evaluator again gives the same verdict
                ops += ";prepare:" + rng.choice(["opt", "noopt"])
                exp["o1.prep"] = exp["o0.prep"]
            return Case("run", {"script": vlib.hx(src), "objs": "N", "ops": ops}, stream, expect=exp, note=src, nontrivial=nontrivial)
        def nest(ctxs, frag, depth):
            s = frag
            for _ in range(depth - 1):
                s = rng.choice(STMT_CONTEXTS[2:]) % (s if s.rstrip().endswith((";", "}")) else s)
            return s
        depths = [1, 2, 3] if tier == "thorough" else [1, 2]
        for frag in INVALID_STMT:
            for ctx in STMT_CONTEXTS:
                if frag.startswith("local") and "function" in ctx:
                    continue            # `local` is valid inside a function
                for d in depths:
                    inner = ctx % frag
                    src = inner
                    for _ in range(d - 1):
                        c2 = rng.choice(STMT_CONTEXTS[2:])
                        if frag.startswith("local") and "function" in c2:
                            c2 = "if (c) { %s }"
                        src = c2 % src
                    out.append(case(src, False, "invalid-stmt", nontrivial=(ctx != "%s" or d > 1)))
                    # the same after complete, valid constructs (state left behind by what was parsed before)
                    pres = PREFIXES if frag.startswith("local") else [rng.choice(PREFIXES)]
                    for pre in pres:
                        out.append(case(pre + src, False, "invalid-stmt-after-valid"))
                        if rng.random() < 0.3:
                            out.append(case(pre + src + " " + rng.choice(PREFIXES), False, "invalid-stmt-between-valid"))
        for frag in INVALID_EXPR:
            for ctx in EXPR_CONTEXTS:
                for d in depths:
                    src = ctx % frag
                    for _ in range(d - 1):
                        src = rng.choice(STMT_CONTEXTS[2:]) % src
                    out.append(case(src, False, "invalid-expr"))
                    out.append(case(rng.choice(PREFIXES) + src, False, "invalid-expr-after-valid"))
        for frag in COMPILE_INVALID:
            for ctx in UNCOMPILED_CONTEXTS:
                for pre in ["", rng.choice(PREFIXES)]:
                    c = case(pre + ctx % frag, False, "invalid-in-uncompiled-position")
                    # (both positions are looked at by Prepare since the repairs of D39: the callee of a call and the right operand of `.`)
                    out.append(c)
        for frag in COMPILE_INVALID + ["(3 = 4)", "#", "1 +"]:
            for ctx in REPEATED_KEY_CONTEXTS:
                out.append(case(ctx % frag, False, "invalid-under-repeated-key"))
                out.append(case(rng.choice(PREFIXES) + "if (c) { " + ctx % frag + " }", False, "invalid-under-repeated-key"))
        # an evaluator that WAS prepared successfully is handed an invalid script (the Script field is public) and prepared again and
        # again: every one of these Prepare calls must fail
        for src in ["return 1;", "x = 1; return x + 1;", "function f(a) { return a; } return f(2);"]:
            for mode in ("opt", "noopt"):
                ops = ["prepare:" + mode, "badprepare", "badprepare", "badprepare", "exec:0", "prepare:" + mode, "badprepare", "badprepare"]
                out.append(Case("run", {"script": vlib.hx(src), "objs": "N", "ops": ";".join(ops)}, "invalid-after-valid-evaluator",
                                expect={"o0.prep": "ok", "o1.unit": "1", "o2.unit": "1", "o3.unit": "1", "o4.class": "ok", "o6.unit": "1", "o7.unit": "1"}, note=src))
        for frag in VALID_STMT:
            for ctx in STMT_CONTEXTS:
                src = ctx % frag
                if frag.startswith("return") and False:
                    continue
                out.append(case(src, True, "valid-stmt", nontrivial=ctx != "%s"))
        for frag in VALID_EXPR:
            for ctx in EXPR_CONTEXTS:
                if frag in ("[1, 2]", "/re/", '{"a": 1}') and ctx.startswith("x = {%s"):
                    continue            # unhashable keys are a run-time matter
                out.append(case(ctx % frag, True, "valid-expr"))
        # truncations of valid scripts at token boundaries that leave a bracket open
        corpus = []
        d = "/repo/_examples/scripts"
        if os.path.isdir(d):
            for f in sorted(os.listdir(d)):
                try:
                    corpus.append(open(os.path.join(d, f), encoding="utf-8").read())
                except Exception:
                    pass
        corpus += ["function f(a, b) { if (a > b) { return [a, {\"k\": b}]; } foreach x in a { t(x[0]); } return (a + b) * 2; } r = f(1, 2); switch (r) { case 1, 2 { t(\"x\"); } default { t(r ? 1 : 2); } }"]
        import re
        for text in corpus:
            toks = [m.end() for m in re.finditer(r"\S+", text)]
            if tier == "quick" and len(toks) > 40:
                toks = rng.sample(toks, 40)
            for cut in toks:
                pre = text[:cut]
                # strip comments and strings for the bracket count
                plain = re.sub(r'//[^\n]*', '', pre)
                plain = re.sub(r'"(\\.|[^"\\])*"', '""', plain)
                plain = re.sub(r"'(\\.|[^'\\])*'", "''", plain)
                if "/" in plain.replace("//", ""):
                    continue            # regexp literals may hide brackets: skip
                opens = sum(plain.count(c) for c in "([{") - sum(plain.count(c) for c in ")]}")
                if opens > 0:
                    out.append(case(pre, False, "truncation"))
        return out

    def in_class(self, klass, case):
        return klass == "uncompiled-position" and "uncompiled-position" in case.tags

PROP = C13()

"""C07 - a prepared script carries no hidden state from one run to the next."""
from runner import Prop, Case, expand
import gen, vlib
from gen import enc_value, enc_struct

SCRIPTS = [
    # what a run reads from the object must come from THAT object, whatever objects earlier runs saw
    "return [Name, Count, Ratio, Active, Tags, Nums, Mode];", "seen = seen + 1; return string(Name) + \":\" + string(Count) + \":\" + string(Mode);",
    # top-level loops that end by panic / error / early return while their scope is open; the host then touches the loop variable's name
    "foreach item in [10, 20, 30] { if (Mode == 2 && item == 20) { panic(\"stop\"); } if (Mode == 1 && item == 20) { return 1 % 0; } if (Mode == 3) { return item; } last = item; } return [item, last];",
    "foreach k, v in Meta { foreach item in Tags { if (Mode == 2) { panic(); } if (Mode == 1) { return nosuch(); } seen = item; } } return [item, k, v, seen];",
    "w = 0; while (w < 3) { foreach item in 1..3 { if (Mode == 2 && item == 2) { return t(1) % 0; } } w = w + 1; } return item;",
    # scripts whose runs end in different ways depending on the object
    "n = n + 1; if (Mode == 1) { return 1 / 0; } if (Mode == 2) { panic(\"boom\"); } if (Mode == 3) { return f(1, 2); } if (Mode == 4) { foreach x in [1, 2, 3] { foreach y in \"ab\" { if (x == 2) { return x; } } } } if (Mode == 5) { return g(3); } return n; function f(a) { return a; } function g(k) { foreach i in 1..5 { if (i == k) { return deep(i); } } return 0; } function deep(z) { local q; q = z; foreach c in \"xyz\" { if (c == \"y\") { return undefinedfn(q); } } return 1; }",
    "if (Mode == 1) { return h(); } if (Mode == 2) { w = 0; while (true) { w = w + 1; } } total = total + Count; return total; function h() { foreach e in [1] { panic(); } }",
    "x = 70000; x++; if (Mode == 1) { return nosuch(1); } if (Mode == 3) { a = b = 3; } return [x, 70000];",
    "function r(n) { if (n == 0) { return boom(); } return r(n - 1); } function boom() { foreach a in [1, 2] { foreach b in [3] { return 1 % 0; } } } if (Mode > 0) { return r(Mode); } c = c + 1; return c;",
    "foreach k, v in Meta { if (Mode == 2) { return k; } seen = k; } switch (Mode) { case 1 { return t(1) / 0; } case 3 { foreach q in [1] { return q; } } default { } } return seen;",
    # numbers written as literals reach ++ / -- / compound assignment through parameters, loop variables and locals: the literal must
    # denote the same number in every later run
    "function next(n) { n++; return n; } function prev(n) { n--; return n; } return [next(1.5), prev(100000), next(65535), next(7)];",
    "t = 0; foreach p in [9.5, 20.25, 70000] { p++; t = t + p; } foreach i, q in [2.5, 100000] { q--; i++; t = t + q + i; } return t;",
    "function f(a, b) { local c; c = 99999.5; c++; a += 1; b *= 2; return [a, b, c]; } return [f(1.25, 70001), f(1.25, 70001)];",
    "function g(n) { foreach k in [n] { k++; n--; } return [n, 3.75]; } x = 3.75; return [g(3.75), g(x), x];",
]

def clash_script(rng):
    """one small set of names used as fields, globals, parameters, locals and loop variables; which scopes a run opens and how it
    leaves them depends on the object (Mode); later runs read the same names inside fresh scopes at the same depths"""
    P = ["Count", "Name", "Tags", "seen", "hits", "k", "item", "Ratio"]
    p = lambda: rng.choice(P)
    f1 = "function fa(%s) { local %s; %s = 1; foreach %s in [1, 2] { if (Mode == 9) { return 0; } } return %s; } " % (p(), p(), P[3], p(), p())
    f2 = "function fb(%s, %s) { foreach %s in [3] { foreach %s in [4] { return fa(%s); } } } " % (p(), p(), p(), p(), p())
    body = ("if (Mode == 1) { return fa(7); } if (Mode == 2) { foreach %s in [1, 2] { foreach %s in [1, 2] { if (%s == 2) { return \"aborted\"; } } } } "
            "if (Mode == 3) { foreach %s in [5] { return 1 %% 0; } } if (Mode == 4) { return fb(8, 9); } if (Mode == 5) { foreach %s in [6] { panic(\"p\"); } } "
            % (p(), p(), p(), p(), p()))
    tail = ("foreach it in [1] { x1 = %s; x2 = %s; foreach it2 in [2] { x3 = %s; x4 = %s; } } function fc() { return [%s, %s]; } return [x1, x2, x3, x4, fc(), %s];"
            % (p(), p(), p(), p(), p(), p(), p()))
    return f1 + f2 + body + tail

class C07(Prop):
    id = "C07"
    compare_run = True
    property_obs = ("class", "value", "truth", "trace", "vars", "get", "prep", "scopes")
    rule = ("histories of 3-10 runs of one prepared evaluator over several objects, in which runs end by script error, panic(), "
            "argument-count mismatch, unknown function, early return out of nested loops and (nested, recursive) function calls, stack "
            "underflow and time-out (logical deadline); every run of the history is repeated on a FRESH evaluator prepared from the same "
            "script and given the variables the used evaluator held before that run (Go against Go), and the whole history is also run on "
            "the model; open scopes after every run must be 0")

    def history(self, rng, script, nruns, randomobj=False):
        objs, ops = [], ["addfn:%s:void" % vlib.hx("t")]
        varied = rng.random() < 0.5
        for i in range(rng.randint(1, 4)):
            fields = gen.rand_object(rng) + [("Mode", rng.choice([0, 0, 1, 2, 3, 4, 5]))]
            if varied:
                # objects of different (anonymous) struct types in one history: other field sets, other orders, other field types
                fields = rng.sample(fields, rng.randint(2, len(fields)))
                if rng.random() < 0.5:
                    fields = [(k, (str(v) if k == "Count" and rng.random() < 0.5 else v)) for k, v in fields]
                if not any(k == "Mode" for k, _ in fields):
                    fields.append(("Mode", rng.choice([0, 1, 3])))
            objs.append(enc_struct(fields))
        if rng.random() < 0.5:
            # an object that has nothing to offer (nil) between objects that have: what a run finds out about its object is that run's
            objs.insert(rng.randrange(len(objs) + 1), "N")
        if rng.random() < 0.5:
            ops.append("setvar:%s:%s" % (vlib.hx("n"), enc_value(rng.choice([0, 5]))))
        ops.append("ctx:%d" % rng.choice([400, 2000, 100000]))
        ops.append("prepare:" + rng.choice(["opt", "noopt"]))
        for _ in range(nruns):
            ops.append(rng.choice(["exec", "run"]) + ":%d" % rng.randrange(len(objs)))
            # the host looks at / stores variables between runs, also under names the script uses for loop variables
            r = rng.random()
            if r < 0.25:
                ops.append("getvar:%s" % vlib.hx(rng.choice(["item", "k", "v", "n", "x", "last", "seen"])))
            elif r < 0.4:
                ops.append("setvar:%s:%s" % (vlib.hx(rng.choice(["item", "k", "n", "x", "last"])), enc_value(rng.choice([1, 7, "s"]))))
        return {"script": vlib.hx(script), "objs": ";".join(objs), "ops": ";".join(ops)}

    def cases(self, rng, tier):
        out = []
        n = 8000 if tier == "thorough" else 120
        for _ in range(n):
            out.append(Case("run", self.history(rng, rng.choice(SCRIPTS), rng.randint(3, 10)), "scenario"))
        for sc in SCRIPTS[-4:]:
            for _ in range(3):
                out.append(Case("run", self.history(rng, sc, rng.randint(3, 5)), "literal-scenario"))
        for _ in range(n):
            out.append(Case("run", self.history(rng, clash_script(rng), rng.randint(3, 8)), "name-clash"))
        # deep recursion that ends in an error / panic / normally, then deep recursion again: the budget of nested calls is per run
        deep = ("function down(k) { if (k == 0) { if (Mode == 1) { return 1 / 0; } if (Mode == 2) { panic(\"deep\"); } if (Mode == 3) { return nosuch(); } return 0; } "
                "return 1 + down(k - 1); } return down(2600);")
        for _ in range(6 if tier == "thorough" else 2):
            objs = [enc_struct([("Mode", m)]) for m in (0, 1, 2, 3)]
            order = [rng.choice([1, 2, 3]), 0, rng.choice([1, 2, 3]), rng.choice([1, 2, 3]), 0, 0]
            ops = ["ctx:none", "prepare:" + rng.choice(["opt", "noopt"])] + ["exec:%d" % o for o in order]
            exp = {}
            for j, o in enumerate(order):
                if o == 0:
                    exp["o%d.class" % (j + 2)] = "ok"; exp["o%d.value" % (j + 2)] = "i2600"
            out.append(Case("run", {"script": vlib.hx(deep), "objs": ";".join(objs), "ops": ";".join(ops)}, "deep-recursion", expect=exp, note=deep))
        for _ in range(n):
            g = gen.Gen(rng, max_depth=2, illtyped=0.1)
            src = g.program(nstmts=rng.randint(2, 5), nfuncs=rng.randint(0, 2), depth=2)
            out.append(Case("run", self.history(rng, src, rng.randint(3, 6)), "random"))
        return out

    def judge(self, case, go, model):
        out = Prop.judge(self, case, go, model)
        for k, v in go.items():
            if k.endswith(".scopes") and v != "0":
                out.append("%s: %s scope(s) left open after the run" % (k, v))
        return out

    def extra_checks(self, tier, st, rng=None, cases=None, go=None):
        """every run of every history again on a fresh evaluator holding the same variables"""
        fresh, meta = [], []
        viol = []
        OPT = vlib.hx("OPTIMIZE")
        for c in cases:
            g = go.get(c.cid)
            if not g or c.kind != "run":
                continue
            ops = c.fields["ops"].split(";")
            prep = [i for i, o in enumerate(ops) if o.startswith("prepare")][0]
            addfns = [o for o in ops[:prep] if o.startswith("addfn")]
            cur = {}                       # the variables the evaluator holds, as the host knows them
            for o in ops[:prep]:
                if o.startswith("setvar"):
                    _, n, v = o.split(":", 2)
                    cur[n] = v
            timed_out = False
            for i in range(prep + 1, len(ops)):
                kind = ops[i].split(":")[0]
                if kind == "setvar":
                    _, n, v = ops[i].split(":", 2)
                    cur[n] = v
                elif kind == "getvar":
                    want = cur.get(ops[i].split(":")[1], "n")
                    got = g.get("o%d.get" % i)
                    if got is not None and got != want:
                        viol.append((c, "GetVariable after operation #%d returns %s, but the evaluator was last given / left with %s" % (i, got, want)))
                elif kind in ("exec", "run"):
                    if g.get("o%d.class" % i) is None:
                        break
                    if g.get("o%d.class" % i) == "timeout":
                        timed_out = True       # the logical budget is shared by the runs of a history
                    if not timed_out:
                        vs = ["setvar:%s:%s" % (n, v) for n, v in sorted(cur.items())]
                        fops = addfns + vs + [ops[prep], ops[i]]
                        cid = "F%d" % len(fresh)
                        fresh.append(vlib.case_line(cid, "run", script=c.fields["script"], objs=c.fields["objs"], ops=";".join(fops)))
                        meta.append((cid, c, i, len(fops) - 1))
                    cur = dict(p.split("=", 1) for p in (g.get("o%d.vars" % i) or "").split("&") if p and not p.startswith(OPT + "="))
        res, _ = vlib.run_go(fresh, tag="C07-fresh") if fresh else ({}, [])
        for (cid, c, i, k) in meta:
            r = expand(res.get(cid))
            g = go[c.cid]
            if not r:
                continue
            for f in ("class", "value", "truth", "trace", "vars"):
                a, b = g.get("o%d.%s" % (i, f)), r.get("o%d.%s" % (k, f))
                if a != b:
                    viol.append((c, "run #%d of the history differs from the same run on a fresh evaluator holding the same variables: %s used=%s fresh=%s" % (i, f, a, b)))
                    break
        return viol, {"fresh_evaluator_reruns": len(meta)}

PROP = C07()

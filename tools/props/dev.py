"""Development stream: whole-pipeline differential run (not a registered check)."""
from runner import Prop, Case
import gen, vlib

class Dev(Prop):
    id = "C99"
    compare_run = True
    property_obs = ("class", "value", "truth", "trace", "vars", "get", "prep", "crash")
    rule = "dev"
    def cases(self, rng, tier):
        out = []
        n = 20000 if tier == "thorough" else 2000
        for _ in range(n):
            g = gen.Gen(rng, max_depth=rng.choice([1, 2, 3]), use_sqrt=False)
            src = g.program(depth=rng.choice([1, 2]))
            ops = ["prepare:" + rng.choice(["opt", "noopt"]), "exec:0"]
            if rng.random() < 0.3:
                ops += ["run:0", "getvar:" + vlib.hx(rng.choice(["a", "b", "x", "y"]))]
            out.append(Case("run", gen.struct_case(rng, src, ops), "programs"))
        return out

PROP = Dev()

"""C20 - the embedding API and the command-line driver are faithful front ends."""
import os, json, subprocess, tempfile, shutil
from runner import Prop, Case
import gen, vlib
from gen import enc_value, enc_host_value

VALUES = [0, 1, -5, 65536, 1.5, "", "s", "héllo", True, False, None, [1, "a"], {"k": 1}]

def rand_json(rng, depth=2):
    r = rng.random()
    if depth <= 0 or r < 0.5:
        return rng.choice([0, 1, 2.5, -3, 100, "str", "", "héllo", True, False, None, 1e3, 0.1])
    if r < 0.75:
        return [rand_json(rng, depth - 1) for _ in range(rng.randint(0, 3))]
    return {rng.choice(["a", "b", "Name", "Count", "k"]): rand_json(rng, depth - 1) for _ in range(rng.randint(0, 3))}

def json_to_host(v):
    if isinstance(v, bool) or v is None or isinstance(v, str):
        return v
    if isinstance(v, (int, float)):
        return float(v)            # encoding/json decodes every number as float64
    if isinstance(v, list):
        return [json_to_host(x) for x in v]
    return {k: json_to_host(x) for k, x in v.items()}

ENDLESS = ["while (true) { }", "n = 0; while (n >= 0) { n = n + 1; } return n;", "function f() { while (1) { x = 1; } } return f();",
           "for (true) { foreach x in 1..3 { y = x; } }"]

class C20(Prop):
    id = "C20"
    need_cli = True
    compare_run = True
    property_obs = ("class", "value", "truth", "trace", "vars", "get", "prep", "crash", "unit")
    rule = ("(a) random API histories: all orders of SetVariable / AddFunction / SetContext / Prepare(opt|NoOptimize) / Run / Execute / "
            "GetVariable, variable values of every type, host functions of arity 0-5 returning each type or void or panicking, "
            "re-registration and shadowing of built-ins; Go against the model state machine, plus Run-vs-Execute and "
            "optimize-vs-NoOptimize relations Go against Go; (b) the built command-line driver on generated scripts and JSON documents with "
            "every flag combination: its report must carry the type, printed value and truth (or the error) that Execute gives for the same "
            "script on the decoded document; `run`, `lex`, `parse`, `bytecode` must exit normally on every input including malformed ones")

    def cases(self, rng, tier):
        out = []
        n = 20000 if tier == "thorough" else 600
        scripts = [
            "return v;", "v = v; return u(v);", "return k();", "r = h0(); return r;", "return h3(1, \"two\", [3]);", "w(); return 1;",
            "x = h5(a, b, 1, 2, 3); return x;", "return [u(1), u(\"s\"), k()];", "n = n + 1; return n;", "return len(\"abc\") + k();",
            "if (v) { s = \"yes\"; } else { s = \"no\"; } return s;", "return OPTIMIZE;", "p(); return 2;", "return u();", "return Name;",
            "total = total + Count; return total > 3;", "return u(u(u(v)));", "t(v, Name); return t;",
        ]
        for _ in range(n):
            src = rng.choice(scripts) if rng.random() < 0.7 else gen.Gen(rng, max_depth=2).program(nstmts=rng.randint(1, 4), depth=1)
            ops = []
            fn_names = ["u", "k", "h0", "h3", "h5", "w", "p", "t", "len"]
            pool = []
            for _ in range(rng.randint(0, 4)):
                pool.append("setvar:%s:%s" % (vlib.hx(rng.choice(["v", "a", "b", "n", "total", "s", "Name"])), enc_value(rng.choice(VALUES))))
            for f in rng.sample(fn_names, rng.randint(2, 7)):
                kind = {"u": "arg0", "w": "void", "p": "panic", "t": "void"}.get(f) or ("c" + enc_value(rng.choice(VALUES))) if f != "len" else rng.choice(["arg0", "ci99"])
                pool.append("addfn:%s:%s" % (vlib.hx(f), kind))
            rng.shuffle(pool)
            ops += pool
            if rng.random() < 0.15:
                ops.append(rng.choice(["exec:0", "run:0", "run:0", "dump"]))            # Execute / Run / Dump before Prepare
            ops.append("prepare:" + rng.choice(["opt", "noopt"]))
            for _ in range(rng.randint(1, 5)):
                r = rng.random()
                if r < 0.35:
                    ops.append("run:0")
                elif r < 0.7:
                    ops.append("exec:0")
                elif r < 0.85:
                    ops.append("getvar:%s" % vlib.hx(rng.choice(["v", "n", "total", "s", "x", "r", "nosuch"])))
                elif r < 0.90:
                    ops.append("setvar:%s:%s" % (vlib.hx(rng.choice(["v", "n", "total"])), enc_value(rng.choice(VALUES))))
                elif r < 0.96:
                    # a host function replaced (or a built-in overridden) after the script has already run
                    f = rng.choice(["k", "h0", "u", "len", "h3"])
                    ops.append("addfn:%s:%s" % (vlib.hx(f), rng.choice(["arg0", "void", "c" + enc_value(rng.choice(VALUES))])))
                else:
                    ops.append("prepare:" + rng.choice(["opt", "noopt"]))
            if rng.random() < 0.15:
                ops += ["badprepare", rng.choice(["exec:0", "run:0", "dump"]), "exec:0"]
            if rng.random() < 0.2:
                ops.append("dump")
            objs = [gen.enc_struct(gen.rand_object(rng))]
            out.append(Case("run", {"script": vlib.hx(src), "objs": ";".join(objs), "ops": ";".join(ops)}, "api-histories", note=src))
        # a variable given with SetVariable is what the script reads (also when an object field has the same name), and GetVariable
        # returns what the script last assigned - stated per name and value, not only against the model
        for name in ["v", "Name", "Count", "total", "x9", "_u", "$a", "$v", "$Name"]:
            for val in [1, 0, -7, 2.5, "s", "", True, False, [1, "a"], {"k": 1}, 70000]:
                objs = "N" if rng.random() < 0.5 else gen.enc_struct(gen.rand_object(rng))
                mode = rng.choice(["opt", "noopt"])
                order = rng.choice([0, 1])
                ops = ["setvar:%s:%s" % (vlib.hx(name), enc_value(val)), "prepare:" + mode] if order else ["prepare:" + mode, "setvar:%s:%s" % (vlib.hx(name), enc_value(val))]
                ops += ["exec:0", "getvar:%s" % vlib.hx(name)]
                c = Case("run", {"script": vlib.hx("return %s;" % name), "objs": objs, "ops": ";".join(ops)}, "set-then-read",
                         expect={"o2.class": "ok", "o2.value": enc_value(val), "o3.get": enc_value(val)}, note="SetVariable(%s) then `return %s;`" % (name, name))
                if name.startswith("$"):
                    c.tags.add("dollar-name")
                out.append(c)
                if isinstance(val, int) and not isinstance(val, bool):
                    ops = ["prepare:" + mode, "exec:0", "getvar:%s" % vlib.hx(name)]
                    c = Case("run", {"script": vlib.hx("%s = %d; %s = %s + 1; return %s;" % (name, val, name, name, name)), "objs": objs, "ops": ";".join(ops)}, "assign-then-get",
                             expect={"o1.class": "ok", "o1.value": enc_value(val + 1), "o2.get": enc_value(val + 1)}, note="`%s = %d; %s = %s + 1;` then GetVariable" % (name, val, name, name))
                    if name.startswith("$"):
                        c.tags.add("dollar-name")
                    out.append(c)
        # a run that ends in a panic while loop scopes are open, then the host uses the API: the loop's variables are gone, and a
        # variable the host sets under such a name is the one the next run reads
        for _ in range(300 if tier == "thorough" else 40):
            boom = rng.choice(['panic("stop");', "hp();", "x = 1 % 0;", 'panic("stop");'])
            nest = rng.choice(["foreach n in [1, 2] { %s }", "foreach k, n in [1, 2] { foreach m in [3] { %s } }", "foreach n in [5] { function q() { return 1; } %s }",
                               "while (true) { foreach n in [1] { %s } }"]) % boom
            src = "if (Boom) { %s } return n;" % nest
            objs = gen.enc_struct([("Boom", False)]) + ";" + gen.enc_struct([("Boom", True)])
            val = rng.choice(["from the host", 7, 2.5, [1, "a"]])
            ops = ["addfn:%s:panic" % vlib.hx("hp"), "prepare:" + rng.choice(["opt", "noopt"]), rng.choice(["exec:1", "run:1"]), "getvar:%s" % vlib.hx("n"),
                   "setvar:%s:%s" % (vlib.hx("n"), enc_value(val)), "getvar:%s" % vlib.hx("n"), "exec:0", "getvar:%s" % vlib.hx("n"), "getvar:%s" % vlib.hx("m")]
            exp = {"o3.get": "n", "o5.get": enc_value(val), "o6.class": "ok", "o6.value": enc_value(val), "o7.get": enc_value(val), "o8.get": "n"}
            out.append(Case("run", {"script": vlib.hx(src), "objs": objs, "ops": ";".join(ops)}, "api-after-panic", expect=exp, note=src))
        # a function registered again under the same name after a run: later runs call the new one
        for _ in range(40 if tier == "quick" else 400):
            f = rng.choice(["k", "u", "len", "h0"])
            src = rng.choice(["return %s(5);", "x = %s(5); return [x, x];", "t = 0; foreach i in 1..3 { t = t + %s(i); } return t;", "function g() { return %s(5); } return g();"]) % f
            v1, v2 = rng.sample([1, 2, "a", 2.5, True], 2)
            ops = ["addfn:%s:c%s" % (vlib.hx(f), enc_value(v1)), "prepare:" + rng.choice(["opt", "noopt"]), "exec:0",
                   "addfn:%s:%s" % (vlib.hx(f), rng.choice(["c" + enc_value(v2), "arg0"])), rng.choice(["exec:0", "run:0"]), "exec:0"]
            out.append(Case("run", {"script": vlib.hx(src), "objs": "N", "ops": ";".join(ops)}, "re-registration", note=src))
        # Run vs Execute on identical evaluators
        for _ in range(n // 3):
            src = gen.Gen(rng, max_depth=2).program(nstmts=rng.randint(1, 4), depth=1)
            objs = [gen.enc_struct(gen.rand_object(rng))]
            g = "RE%d" % len(out)
            for op in ("run:0", "exec:0"):
                f = gen.struct_case(rng, src, ["prepare:opt", op], objs=objs)
                out.append(Case("run", f, "run-vs-execute", group=g, note=src))
        return out

    def in_class(self, klass, case):
        return klass == "dollar-name" and "dollar-name" in case.tags

    def judge(self, case, go, model):
        out = Prop.judge(self, case, go, model)
        # NoOptimize disables optimisation - whatever was prepared before: the program the machine will run is the compiled one
        ops = case.fields.get("ops", "").split(";")
        for k, op in enumerate(ops):
            if op == "prepare:noopt" and go.get("o%d.prep" % k) == "ok":
                if go.get("o%d.prog" % k) != go.get("o%d.uprog" % k):
                    out.append("o%d: Prepare with NoOptimize gave the machine an optimized program" % k)
        return out

    def judge_groups(self, groups, go):
        from props.c05 import truthy
        out = []
        for name, cs in groups.items():
            if not name.startswith("RE"):
                continue
            a, b = go.get(cs[0].cid), go.get(cs[1].cid)        # run, exec
            if not a or not b:
                continue
            ks = [int(x[1:].split(".")[0]) for x in a if x[0] == "o" and "." in x]
            if not ks:
                continue               # (a hung or crashed history is reported by the runner itself)
            k = max(ks)
            ca, cb = a.get("o%d.class" % k), b.get("o%d.class" % k)
            if (ca == "ok") != (cb == "ok"):
                out.append((cs[0], "Run and Execute disagree on failure: Run %s, Execute %s" % (ca, cb)))
            elif cb == "ok":
                insp = b.get("o%d.inspect" % k)
                want = vlib.unhxs(insp).rsplit(":", 1)[1] == "true" if insp else None
                got = a.get("o%d.truth" % k) == "b1"
                if want is not None and want != got:
                    out.append((cs[0], "Run returned %s but Execute's value has truth %s" % (got, want)))
        return out

    def extra_checks(self, tier, st, rng=None, cases=None, go=None):
        cli = os.path.join(vlib.BUILD, "evalfilter-cli")
        if not os.path.exists(cli):
            return [(None, "the command-line driver does not build: " + st["log"].get("cli", "")[-300:])], {}
        tmp = tempfile.mkdtemp(prefix="c20-", dir=os.path.join(vlib.BUILD))
        viol = []
        n = 400 if tier == "thorough" else 60
        lines, meta = [], []
        try:
            for i in range(n):
                doc = {k: rand_json(rng, 2) for k in rng.sample(["Name", "Count", "Tags", "Meta", "a", "b"], rng.randint(0, 4))}
                src = rng.choice(["return Name;", "return Count;", "return Tags;", "return Meta;", "return a;", "return len(Tags) > 1;",
                                  "return Count * 2;", "return Name + \"x\";", "return nosuch;", "return 1 / 0;", "return [a, b];", "x = ;",
                                  "print(\"side output\\n\"); return true;", "return Count > 1 && Name ~= /e/;"] + ENDLESS)
                if rng.random() < 0.3:
                    src = gen.Gen(rng, max_depth=2, use_fields=False).program(nstmts=rng.randint(1, 3), depth=1)
                # values whose printed form contains what a format string would interpret
                PERCENT = ['return "100%";', 'return "%d items";', 'return ["%s", "%v"];', 'return "50%% off %!";', 'return {"%x": "%q"};', 'return Name + "%s";']
                if i < len(PERCENT):
                    src = PERCENT[i]
                sp, jp = os.path.join(tmp, "s%d.in" % i), os.path.join(tmp, "d%d.json" % i)
                open(sp, "w").write(src)
                use_json = rng.random() < 0.8
                if use_json:
                    json.dump(doc, open(jp, "w"))
                noopt = rng.random() < 0.5
                args = [cli, "run"] + (["-json", jp] if use_json else []) + (["-no-optimizer"] if noopt else []) + ["-timeout", "500ms", sp]
                try:
                    p = subprocess.run(args, stdout=subprocess.PIPE, stderr=subprocess.PIPE, timeout=20)
                except subprocess.TimeoutExpired:
                    viol.append((None, "`evalfilter run -timeout 500ms` was still running after 20 s on script %r (%s)" % (src, " ".join(args[1:-1]))))
                    continue
                stdout = p.stdout.decode("utf-8", "replace")
                if src in ENDLESS and "timeout" not in stdout:
                    viol.append((None, "`evalfilter run -timeout 500ms` does not report the timeout Execute gives for the endless script %r: %r" % (src, stdout[-200:])))
                if p.returncode != 0 or "panic:" in p.stderr.decode("utf-8", "replace") or "goroutine " in p.stderr.decode("utf-8", "replace"):
                    viol.append((None, "`evalfilter run` did not exit normally (rc=%d) on script %r" % (p.returncode, src)))
                    continue
                host = enc_host_value(json_to_host(doc if use_json else {}))
                lines.append(vlib.case_line("CLI%d" % i, "run", script=vlib.hx(src), objs=host, ops="ctx:none;prepare:%s;exec:0" % ("noopt" if noopt else "opt"), noora="1"))
                meta.append(("CLI%d" % i, src, stdout))
                # the other sub-commands terminate normally on any script
                for sub in ("lex", "parse", "bytecode"):
                    q = subprocess.run([cli, sub, sp], stdout=subprocess.PIPE, stderr=subprocess.PIPE, timeout=30)
                    if q.returncode != 0 or b"panic:" in q.stderr or b"goroutine " in q.stderr:
                        viol.append((None, "`evalfilter %s` did not exit normally (rc=%d) on script %r" % (sub, q.returncode, src)))
            # malformed inputs for every sub-command
            for j, blob in enumerate([b"", b"\x00\x01\xff", b"((((((((", b'"unterminated', b"if (", b"function (", b"{" * 200, b"x = 1 +", b"\xff\xfe return 1;"]):
                sp = os.path.join(tmp, "m%d.in" % j)
                open(sp, "wb").write(blob)
                jp = os.path.join(tmp, "m%d.json" % j)
                open(jp, "wb").write(blob)
                for args in ([cli, "run", sp], [cli, "run", "-json", jp, sp], [cli, "lex", sp], [cli, "parse", sp], [cli, "bytecode", sp], [cli, "bytecode", "-no-optimizer", sp]):
                    q = subprocess.run(args, stdout=subprocess.PIPE, stderr=subprocess.PIPE, timeout=30)
                    if q.returncode != 0 or b"panic:" in q.stderr or b"goroutine " in q.stderr:
                        viol.append((None, "`%s` did not exit normally (rc=%d) on malformed input %r" % (" ".join(args[1:-1]), q.returncode, blob[:20])))
            from runner import expand
            res, _ = vlib.run_go(lines, tag="C20-cli") if lines else ({}, [])
            for (cid, src, stdout) in meta:
                r = expand(res.get(cid))
                if not r:
                    continue
                klass = r.get("o2.class")
                if r.get("o1.prep") == "error":
                    if "Error compiling:" not in stdout:
                        viol.append((None, "driver does not report the compile error of %r: %r" % (src, stdout[-200:])))
                elif klass == "timeout":
                    continue
                elif klass != "ok":
                    if "Failed to run script" not in stdout:
                        viol.append((None, "driver does not report the run-time error of %r (API: %s): %r" % (src, klass, stdout[-200:])))
                else:
                    ty, rest = vlib.unhxs(r["o2.inspect"]).split(":", 1)
                    val, truth = rest.rsplit(":", 1)
                    want = "Script gave result type:%s value:%s - which is '%s'." % (ty, val, truth)
                    if want not in stdout:
                        viol.append((None, "driver report differs from Execute for %r: want %r, got %r" % (src, want, stdout[-300:])))
        finally:
            shutil.rmtree(tmp, ignore_errors=True)
        return viol, {"cli_invocations": n * 4 + 54}

PROP = C20()

"""C11 - evaluators can be used from many goroutines."""
import os, json, subprocess
from runner import Prop, Case
import gen, vlib
from gen import enc_struct

SCRIPTS = [
    "if (Count > 3) { return true; } return false;", "return Name ~= /o/;", "return len(Tags) > 1 && Active;", "return match(Name, /^b/) || Ratio > 1;",
    "x = replace(Name, /[aeiou]/, \"_\"); return len(x) > 2;", "switch (Name) { case /^A/i { return true; } case \"bob\" { return true; } default { return false; } }",
    "t = 0; foreach n in Nums { t = t + n; } return t > 5;", "function f(a) { return a * 2; } return f(Count) > 10;", "return lower(Name) == \"bob\" || upper(Name) == \"ALICE\";",
    "h = {\"a\": Count}; return h[\"a\"] > 0;", "return sort(Tags)[0] == \"a\";", "return between(Count, 1, 100) && (Name in [\"bob\", \"Alice\"]);",
]

# scripts whose regular expressions are new to the process every time they are prepared (@U@ is replaced by
# the harness with a string unique per workload, goroutine and round; the alternative it adds never matches)
FRESH = [
    "return Name ~= /o|zz@U@/;", "return match(Name, \"^b|^@U@\") || Ratio > 1;", "x = replace(Name, /[aeiou]|@U@/, \"_\"); return x;",
    "switch (Name) { case /^A|@U@/i { return 1; } case \"bob\" { return 2; } default { return 3; } }", "return Name !~ /@U@/;",
    "t = 0; foreach n in Tags { if (n ~= /^[a-c]$|@U@/) { t++; } } return t;",
]

# a user-defined function is called and the object's fields are read AFTER it has returned (whatever a call borrows for its
# duration must not be somebody else's by then)
AFTER_CALL = [
    "function f(a) { return a; } x = f(1); return [Name, Count, Active, len(Tags)];",
    "function g() { return Count; } a = g(); b = Name; c = g(); return [a, b, c, Ratio, Name];",
    "function h(n) { if (n > 0) { return h(n - 1); } return Name; } t = []; foreach i in [1, 2, 3] { x = h(i); y = Count; z = Name; } return [x, y, z, Active];",
]

# one array / string object given to EVERY evaluator with SetVariable (an allow-list built once by the host): reading it - with
# built-ins, operators or loops - in one evaluator must not disturb another
SHARED_VAR = [
    "return join(allow, \",\") + \"|\" + string(len(allow));", "n = 0; foreach x in allow { n++; } foreach c in greeting { n++; } return [n, join(allow, \"-\")];",
    "return [Name in allow, sort(allow), reverse(allow), len(greeting)];", "s = \"\"; foreach i, x in allow { s = s + string(i) + string(x); } return s + upper(greeting);",
    "return [join(allow, \"\"), join(allow, \"\"), allow[0], allow[6], split(greeting, \" \")];", "return [min(allow[2], 9), max(allow[6], 1), string(allow), keys({\"k\": allow})];",
]

class C11(Prop):
    id = "C11"
    compare_run = True
    property_obs = ("crash",)
    rule = ("the harness, built with the Go race detector, runs (a) N in {2,8,32} goroutines calling Run on ONE prepared evaluator with "
            "different objects - also with the script inside a slow host function while the others call Run - : the multiset of (object, verdict) must equal the sequential run; (b) a counter script on a shared evaluator: "
            "after N x K runs the persistent variable equals N x K; (c) M goroutines each preparing and running their OWN evaluators with "
            "scripts using fields, variables, regexps (~=, match, replace, switch cases; also patterns never compiled before in the "
            "process, so that compilation caches are written concurrently) and built-ins: equal scripts must see equal results; any race report or fatal error is a violation. non-trivial = workload with at least 2 goroutines")

    def cases(self, rng, tier):
        return []

    def extra_checks(self, tier, st, rng=None, cases=None, go=None):
        hdir = os.path.join(vlib.ROOT, "harness")
        env = dict(vlib.GOENV, CGO_ENABLED="1")
        rb = os.path.join(vlib.BUILD, "harness-race")
        p = subprocess.run(["go", "build", "-race", "-tags", "verif", "-o", rb, "."], cwd=hdir, env=env, capture_output=True, text=True, timeout=900)
        if p.returncode != 0:
            return [(None, "the harness does not build with -race: " + p.stderr[-400:])], {}
        specs = []
        objs = [enc_struct(gen.rand_object(rng)) for _ in range(6)]
        ns = [2, 8, 32] if tier == "thorough" else [2, 8]
        reps = 8 if tier == "thorough" else 1
        # first of all, on a cold process: separate evaluators compiling patterns nobody has compiled yet
        specs.append({"kind": "separate", "scripts": FRESH, "objs": objs, "goroutines": 24, "rounds": 6})
        specs.append({"kind": "separate", "scripts": AFTER_CALL, "objs": objs, "goroutines": 48, "rounds": 12})
        specs.append({"kind": "separate", "scripts": AFTER_CALL[:1], "objs": objs, "goroutines": 32, "rounds": 12})
        specs.append({"kind": "shared", "script": "function f(a) { return a; } x = f(Count); return Count > 3 && len(Name) > 2;", "objs": objs, "goroutines": 16, "rounds": 20})
        specs.append({"kind": "separate", "scripts": SHARED_VAR, "objs": objs, "goroutines": 36, "rounds": 12, "sharedvar": True})
        specs.append({"kind": "separate", "scripts": SHARED_VAR[:1], "objs": objs, "goroutines": 24, "rounds": 20, "sharedvar": True})
        for _ in range(reps):
            for n in ns:
                specs.append({"kind": "separate", "scripts": FRESH, "objs": objs, "goroutines": max(n, len(FRESH) * 2), "rounds": 4})
                for s in SCRIPTS:
                    specs.append({"kind": "shared", "script": s, "objs": objs, "goroutines": n, "rounds": 20})
                # the script is inside a host function (which takes its time) while the other goroutines call Run
                for hs in ["x = pause(Count); foreach t in Tags { y = pause(t); } return x > 3;", "function f(a) { local q; q = pause(a); return q; } return f(Name) == Name && pause(true);"]:
                    specs.append({"kind": "shared-host", "script": hs, "objs": objs, "goroutines": n, "rounds": 10})
                specs.append({"kind": "counter", "script": "if (n) { n = n + 1; } else { n = 1; } return true;", "objs": objs, "goroutines": n, "rounds": 50})
                specs.append({"kind": "counter", "script": "if (n) { n++; } else { n = 1; } foreach x in Tags { y = x; } return n > 0;", "objs": objs, "goroutines": n, "rounds": 50})
                specs.append({"kind": "separate", "scripts": SCRIPTS, "objs": objs, "goroutines": max(n, len(SCRIPTS) * 2), "rounds": 4})
        path = os.path.join(vlib.BUILD, "cases", "c11-%d.json" % os.getpid())
        os.makedirs(os.path.dirname(path), exist_ok=True)
        json.dump(specs, open(path, "w"))
        renv = dict(os.environ, GORACE="halt_on_error=0 exitcode=66")
        q = subprocess.run([rb, "conc", path], capture_output=True, text=True, timeout=1800, env=renv)
        os.remove(path)
        viol = []
        n_ok = 0
        for line in q.stdout.splitlines():
            try:
                r = json.loads(line)
            except Exception:
                continue
            s = specs[r["i"]]
            if r.get("error"):
                viol.append((None, "workload %d (%s): %s" % (r["i"], s["kind"], r["error"])))
            elif not r.get("ok"):
                if s["kind"] == "counter":
                    viol.append((None, "lost update: %d goroutines x %d runs of the counter script left n = %s (expected %s)" % (s["goroutines"], s["rounds"], r.get("counter"), r.get("expected"))))
                elif s["kind"] in ("shared", "shared-host"):
                    viol.append((None, "concurrent Run calls on one evaluator gave verdicts no sequential order gives: script %r, %d goroutines" % (s["script"], s["goroutines"])))
                else:
                    viol.append((None, "goroutines running the same script on their own evaluators saw different results"))
            else:
                n_ok += 1
        races = q.stderr.count("WARNING: DATA RACE")
        if races:
            i = q.stderr.find("WARNING: DATA RACE")
            viol.append((None, "%d data race report(s); first: %s" % (races, " | ".join(l.strip() for l in q.stderr[i:i + 900].splitlines()[:14]))))
        if "fatal error" in q.stderr:
            i = q.stderr.find("fatal error")
            viol.append((None, "fatal error in the Go runtime: " + q.stderr[i:i + 200]))
        if q.returncode not in (0, 66) or n_ok + len([v for v in viol]) == 0:
            viol.append((None, "the concurrency harness failed: rc=%d %s" % (q.returncode, q.stderr[-300:])))
        return viol, {"samples": specs[:2] + specs[-1:], "workloads": len(specs), "workloads_ok": n_ok, "race_reports": races, "evaluations": sum(s["goroutines"] * s["rounds"] for s in specs),
                      "distinct_nontrivial": len(specs)}

PROP = C11()

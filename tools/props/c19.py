"""C19 - preparing and running a script is deterministic."""
from runner import Prop, Case, expand
import gen, vlib
from gen import enc_value

HASHY = [
    'return {1: "a", "1": "b", 1.0: "c"};', 'h = {"b": 2, "a": 1, "c": 3}; return keys(h);', 'return string({"z": 1, "y": 2, "x": 3, 10: 4, 9: 5});',
    'h = {"a": 1, "a": 2}; return h["a"];', 'h = {1: "x", 1: "y", "k": 1}; return h;', 'r = []; foreach k, v in {"q": 1, "p": 2, 3: 3, 2.5: 4} { t(k, v); } return 1;',
    'function b() { return 2; } function a() { return 1; } function c() { return 3; } return [a(), b(), c()];',
    'x = [{"a": 1, "b": 2}, {"b": 2, "a": 1}]; return string(x[0]) == string(x[1]);', 'return keys(Meta);', 'return string(Meta);',
    'foreach k, v in Meta { t(k); } return len(Meta);', 'return {true: 1};', 'return sort(keys({"b": 1, "a": 2, "B": 3, 1: 4}));',
    'return {"k2": {"z": 1, "a": 2}, "k1": [3, {"y": 1, "x": 2}]};',
    'h = {"a": 1, "A": 2, "b": 3, "B": 4, "c": 5}; n = 0; s = ""; foreach k, v in h { n = n + v; s = s + k; } return [n, s, keys(h), string(h)];',
    'r = []; foreach k, v in {"Key": 1, "key": 2, "KEY": 3} { t(k, v); } return 1;',
    # hash literals whose KEYS contain hash literals (the compiler orders the pairs by the printed form of the key expression)
    'return { len({"a": 1, "b": 2}) : "first", len({"b": 1, "a": 2}) : "second" };',
    'h = { string({"x": 1, "y": 2, "z": 3}) : 1, string({"z": 3, "y": 2, "x": 1}) : 2, string({"y": 2}) : 3 }; return [h, keys(h)];',
    # many constant folds spread over several functions (more than any per-evaluator budget an optimizer might keep)
    "function alpha() { return " + " + ".join(["1"] * 520) + "; } function beta() { return " + " + ".join(["2"] * 520) + "; } function gamma() { return " + " * ".join(["1"] * 520) + "; } return [alpha(), beta(), gamma()];",
]

class C19(Prop):
    id = "C19"
    need_cli = True
    compare_run = True
    property_obs = ("class", "value", "truth", "trace", "vars", "get", "prep", "prog", "uprog")
    rule = ("scripts with hash literals (keys of different types, keys whose printed forms coincide, duplicate keys), several functions, "
            "many constants, hashes from the host object; each prepared 3 times on FRESH evaluators and twice on the SAME evaluator within "
            "one process, and the whole case file re-run in 4 (thorough: 12) separate processes (different map-iteration seeds): compiled "
            "program, result, printed forms, host-call trace and variables must be identical everywhere, and equal to the model's; "
            "and the same script and object on a fresh evaluator and on one whose previous run (on another object) panicked, failed or "
            "returned: same result, trace and variables")

    def cases(self, rng, tier):
        out = []
        scripts = list(HASHY)
        n = 2500 if tier == "thorough" else 250
        for _ in range(n):
            g = gen.Gen(rng, max_depth=2, illtyped=0.02)
            scripts.append(g.program(nstmts=rng.randint(1, 5), depth=2))
        gid = 0
        dollar = "M(%s=S%s,%s=S%s,%s=I0.10,%s=I0.20,%s=Li(S%s),%s=Li(S%s,S%s))" % (
            vlib.hx("Name"), vlib.hx("plain"), vlib.hx("$Name"), vlib.hx("dollar"), vlib.hx("Count"), vlib.hx("$Count"),
            vlib.hx("Tags"), vlib.hx("a"), vlib.hx("$Tags"), vlib.hx("b"), vlib.hx("c"))
        for src in ["return Name;", "return $Name;", "return [Name, Count, Tags, $Name, $Count, $Tags];", "return string(Name) + \":\" + string(Count);",
                    "t(Name, $Count); return len(Tags);"]:
            gid += 1
            for rep in range(3):
                f = gen.struct_case(rng, src, ["prepare:opt", "exec:0", "exec:0"], objs=[dollar])
                out.append(Case("run", f, "dollar-keys", group="D%d" % gid, note=src))
        # the object is a map that has keys which are not strings next to its string keys (what YAML decoders produce): every string key
        # is a field, in whatever order the map hands its keys out
        mixed = "J(%s=S%s,%s=I0.42,%s=B1,%s=Li(S%s,S%s))" % (vlib.hx("Name"), vlib.hx("Steve"), vlib.hx("Count"), vlib.hx("Active"), vlib.hx("Tags"), vlib.hx("a"), vlib.hx("b"))
        for src, want in [("return [Name, Count, Active, Tags];", ["Steve", 42, True, ["a", "b"]]), ("return string(Name) + \"/\" + string(Count) + \"/\" + string(Active);", "Steve/42/true"),
                          ("n = 0; if (Name) { n++; } if (Count) { n++; } if (Active) { n++; } if (Tags) { n++; } return n;", 4)]:
            gid += 1
            for rep in range(6):
                f = gen.struct_case(rng, src, ["prepare:opt"] + ["exec:0"] * 6, objs=[mixed])
                exp = {}
                for k in range(6):
                    exp["o%d.class" % (k + 3)] = "ok"; exp["o%d.value" % (k + 3)] = gen.enc_value(want)
                out.append(Case("run", f, "mixed-key-map", group="D%d" % gid, expect=exp, note=src))
        # one Go map reachable under several keys of the object (no cycle): every occurrence converts alike, in whatever order the keys come
        for kind, src, want in [("7", "return [x, y, z];", [{"city": "bob", "zip": 7}, {"city": "bob", "zip": 7}, {"inner": {"city": "bob", "zip": 7}}]),
                                ("7", "return string(x) + \"|\" + string(y) + \"|\" + string(z);", "{city: bob, zip: 7}|{city: bob, zip: 7}|{inner: {city: bob, zip: 7}}"),
                                ("6", "return [Billing, Shipping, NilA];", [{"city": "bob", "zip": 7}, {"city": "bob", "zip": 7}, {}]),
                                ("6", "return [len(Shipping), len(Billing), Shipping.city, Billing.zip];", [2, 2, "bob", 7])]:
            gid += 1
            for rep in range(6):
                f = gen.struct_case(rng, src, ["prepare:opt"] + ["exec:0"] * 6, objs=["K%s(%s,7)" % (kind, vlib.hx("bob"))])
                exp = {}
                for k in range(6):
                    exp["o%d.class" % (k + 3)] = "ok"; exp["o%d.value" % (k + 3)] = gen.enc_value(want)
                out.append(Case("run", f, "shared-submap", group="D%d" % gid, expect=exp, note=src))
        # printed forms never show memory addresses (known finding D46: the %p verb of sprintf/printf does)
        for src in ['return sprintf("%p", [1, 2]);', 'return sprintf("%p", {"a": 1});', 'x = [1]; return sprintf("%v %p", x, x);', 'return sprintf("%p", "s");']:
            gid += 1
            for rep in range(3):
                c = Case("run", gen.struct_case(rng, src, ["prepare:opt", "exec:0", "prepare:opt", "exec:0"], objs=["N"]), "pointer-verb", group="D%d" % gid, note=src)
                c.tags.add("pointer-verb")
                out.append(c)
        for src in scripts:
            gid += 1
            objs = [gen.enc_struct(gen.rand_object(rng))]
            mode = rng.choice(["opt", "noopt"])
            for rep in range(3):
                f = gen.struct_case(rng, src, ["prepare:" + mode, "exec:0", "prepare:" + mode, "exec:0"], objs=objs)
                out.append(Case("run", f, "hashy" if gid <= len(HASHY) else "random", group="D%d" % gid, note=src))
        # the same script and object on a fresh evaluator and on one whose previous run - on ANOTHER object - was aborted
        # by panic(), by a run-time error or ended normally: the result may not depend on that history
        for src in scripts[:len(HASHY)] + rng.sample(scripts[len(HASHY):], min(60, len(scripts) - len(HASHY))):
            gid += 1
            o1 = gen.rand_object(rng) + [("Boom", 0)]
            o2 = gen.rand_object(rng) + [("Boom", rng.choice([1, 2, 3]))]
            wrapped = "if (Boom == 1) { panic(\"stop\"); } if (Boom == 2) { return 1 % 0; } if (Boom == 3) { return Name; } " + src
            if rng.random() < 0.5:
                # ... the previous run ended INSIDE a user-defined function (nested in a loop)
                wrapped = ("function boomf(b) { foreach q9 in [1] { if (b == 1) { panic(\"stop\"); } if (b == 2) { return 1 % 0; } if (b == 3) { return nosuchfn(); } } return 0; } "
                           "z9 = boomf(Boom); " + src)
            objs = [gen.enc_struct(o1), gen.enc_struct(o2)]
            mode = rng.choice(["opt", "noopt"])
            fa = gen.struct_case(rng, wrapped, ["prepare:" + mode, "exec:0"], objs=objs)
            fb = gen.struct_case(rng, wrapped, ["prepare:" + mode, "exec:1", "exec:0"], objs=objs)
            out.append(Case("run", fa, "history-fresh", group="H%d" % gid, note=wrapped))
            out.append(Case("run", fb, "history-used", group="H%d" % gid, note=wrapped))
        return out

    def judge_groups(self, groups, go):
        out = []
        for name, cs in groups.items():
            if name.startswith("H"):
                a, b = go.get(cs[0].cid), go.get(cs[1].cid)
                if not a or not b:
                    continue
                ka = max(int(x[1:].split(".")[0]) for x in a if x[0] == "o" and "." in x)
                kb = max(int(x[1:].split(".")[0]) for x in b if x[0] == "o" and "." in x)
                for f in ("class", "value", "trace", "vars"):
                    if a.get("o%d.%s" % (ka, f)) != b.get("o%d.%s" % (kb, f)):
                        out.append((cs[1], "the same script on the same object gives a different %s after a run on another object: fresh %s, used %s" %
                                    (f, a.get("o%d.%s" % (ka, f)), b.get("o%d.%s" % (kb, f)))))
                        break
                continue
            rs = [go.get(c.cid) for c in cs]
            if any(r is None for r in rs):
                continue
            keys = sorted(k for k in rs[0] if k[0] == "o" and "." in k)
            for k in keys:
                vals = set(r.get(k) for r in rs)
                if len(vals) > 1:
                    out.append((cs[0], "fresh evaluators disagree on %s: %s" % (k, sorted(str(v) for v in vals)[:3])))
                    break
            r = rs[0]
            for f in ("class", "value", "trace", "vars"):
                if r.get("o2.prog") is not None and r.get("o4.prog") is not None:
                    if r.get("o2.prog") != r.get("o4.prog") or r.get("o2.uprog") != r.get("o4.uprog"):
                        out.append((cs[0], "a second Prepare on the same evaluator compiled a different program"))
                        break
        return out

    def cli_outputs(self):
        """what the command-line driver prints (byte-code listing, compile errors) is the same from process to process"""
        import os, subprocess, tempfile, shutil
        cli = os.path.join(vlib.BUILD, "evalfilter-cli")
        if not os.path.exists(cli):
            return [(None, "the command-line driver does not build")]
        body = " ".join("a = 1;" for _ in range(9500))
        scripts = {
            "bytecode": ["function f() { return 1; } function g() { return 2; } function h() { return 3; } function k(a) { return a; } return [f(), g(), h(), k(4)];",
                         "function zeta() { return 1 + 1; } function alpha(x) { return x * 2; } function mid() { return alpha(zeta()); } return mid();"],
            "run": ["function f() { %s } function g() { %s } function h() { %s } return 1;" % (body, body, body)],
        }
        out = []
        tmp = tempfile.mkdtemp(prefix="c19-", dir=vlib.BUILD)
        try:
            for sub, srcs in scripts.items():
                for i, src in enumerate(srcs):
                    sp = os.path.join(tmp, "%s%d.in" % (sub, i))
                    open(sp, "w").write(src)
                    seen = set()
                    for _ in range(8):
                        q = subprocess.run([cli, sub, sp], stdout=subprocess.PIPE, stderr=subprocess.PIPE, timeout=120)
                        seen.add(q.stdout)
                    if len(seen) > 1:
                        out.append((None, "`evalfilter %s` prints %d different outputs for the same script (%s...) in 8 processes" % (sub, len(seen), src[:60])))
        finally:
            shutil.rmtree(tmp, ignore_errors=True)
        return out

    def extra_checks(self, tier, st, rng=None, cases=None, go=None):
        nproc = 12 if tier == "thorough" else 4
        lines = [c.line() for c in cases]
        viol = self.cli_outputs()
        base = {k: {kk: vv for kk, vv in v.items() if kk != "ora"} for k, v in go.items()}
        for p in range(nproc):
            res, crashed = vlib.run_go(lines, tag="C19-proc%d" % p, nshards=1)
            res = {k: {kk: vv for kk, vv in expand(v).items() if kk != "ora"} for k, v in res.items()}
            for c in cases:
                a, b = base.get(c.cid), res.get(c.cid)
                if a is None or b is None:
                    continue
                if a != b:
                    diff = [k for k in set(a) | set(b) if a.get(k) != b.get(k)]
                    viol.append((c, "a separate process gives a different %s: %s vs %s" % (diff[0], a.get(diff[0]), b.get(diff[0]))))
        return viol, {"processes": nproc + 1}

    def in_class(self, klass, case):
        return klass == "pointer-verb" and "pointer-verb" in case.tags

PROP = C19()

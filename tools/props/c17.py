"""C17 - built-in functions keep their documented contracts."""
import datetime, zoneinfo
from runner import Prop, Case
import vlib
from gen import enc_value
from props.c01 import lit
from props.c16 import sort_key

NUMS = [0, 1, 2, 9, 10, 11, 100, -1, -10, 5, 65536, 0.5, 1.5, 9.5, 10.0, 10.5, -0.5, 2.0]
ZONES = ["UTC", "Europe/Helsinki", "America/New_York", "Asia/Kolkata"]
INSTANTS = [0, 1, 59, 86399, 86400, 951782400, 951868799, 1078012800, 1700000000, -1, -86400, 4102444800, 2147483648, -2208988800]

def insp(v):
    if v is None:
        return "null"
    if isinstance(v, bool):
        return "true" if v else "false"
    if isinstance(v, int):
        return str(v)
    if isinstance(v, float):
        s = repr(v)
        return s[:-2] if s.endswith(".0") else s
    if isinstance(v, str):
        return v
    if isinstance(v, list):
        return "[" + ", ".join(insp(x) for x in v) + "]"
    raise ValueError(v)

def lt(a, b):
    return a < b

class C17(Prop):
    id = "C17"
    compare_run = True
    property_obs = ("class", "value", "prep")
    rule = ("every built-in x argument pools: min/max/between over all ordered pairs/triples of multi-digit, negative and mixed int/float "
            "numbers (judged against numeric order computed in the generator and against the script's own < and <=); sort/reverse on "
            "mixed arrays (ordered permutation, input unchanged); join(split(s,d),d) = s; len/lower/upper/trim/string/int/float/type; "
            "time fields for instants 1900-2100 in 4 zones against Python's zoneinfo; arities 0-4 and wrong types yield null (false for match)")

    def cases(self, rng, tier):
        out = []
        def case(src, expect_value, stream, ops=(), klass="ok", tz=None):
            allops = list(ops) + ["prepare:" + rng.choice(["opt", "noopt"]), "exec:0"]
            k = len(allops) - 1
            exp = {"o%d.class" % k: klass}
            if expect_value is not None:
                exp["o%d.value" % k] = expect_value
            f = {"script": vlib.hx(src), "objs": "N", "ops": ";".join(allops)}
            if tz:
                f["tz"] = tz
            return Case("run", f, stream, expect=exp, note=src)
        nums = NUMS if tier == "thorough" else NUMS[:12]
        for a in nums:
            for b in nums:
                la, lb = lit(a), lit(b)
                out.append(case("return min(%s, %s);" % (la, lb), enc_value(b if b < a else a), "min"))
                out.append(case("return max(%s, %s);" % (la, lb), enc_value(b if a < b else a), "max"))
                # agreement with the language's own comparison
                out.append(case("a = %s; b = %s; if (a < b) { return (min(a, b) == a) && (max(a, b) == b); } return (min(a, b) == b) || (a == b);" % (la, lb),
                                "b1", "minmax-vs-lt"))
        import itertools
        tri = list(itertools.product(nums[:9], repeat=3)) if tier == "thorough" else [(rng.choice(nums), rng.choice(nums), rng.choice(nums)) for _ in range(400)]
        for v, lo, hi in tri:
            out.append(case("return between(%s, %s, %s);" % (lit(v), lit(lo), lit(hi)), "b1" if lo <= v <= hi else "b0", "between"))
            out.append(case("v = %s; lo = %s; hi = %s; return between(v, lo, hi) == ((lo <= v) && (v <= hi));" % (lit(v), lit(lo), lit(hi)), "b1", "between-vs-le"))
        # sort / reverse
        arrays = [[], [3, 1, 2], ["b", "a", "c"], ["B", "a", "C", "b"], [10, 9, 100, 1], ["x", 3, 1.5, True], ["b", "B", "a", "A"]]
        for a in arrays:
            keys = [insp(x) for x in a]
            st = [x for _, x in sorted(zip(keys, range(len(a))), key=lambda p: p[0])]
            srt = [a[i] for i in st]
            rv = [a[i] for i in [x for _, x in sorted(zip(keys, range(len(a))), key=lambda p: p[0], reverse=True)]]
            distinct = len(set(keys)) == len(keys)
            if distinct:
                out.append(case("return sort(%s);" % lit(a), enc_value(srt), "sort"))
                out.append(case("return reverse(%s);" % lit(a), enc_value(rv), "reverse"))
            out.append(case("a = %s; b = sort(a); c = reverse(a); return a;" % lit(a), enc_value(a), "sort-input-unchanged"))
            out.append(case("a = %s; return len(sort(a)) == len(a);" % lit(a), "b1", "sort-perm"))
            lk = [k.lower() for k in keys]
            if len(set(lk)) == len(lk):
                st2 = [a[i] for _, i in sorted(zip(lk, range(len(a))))]
                out.append(case("return sort(%s, true);" % lit(a), enc_value(st2), "sort-ci"))
        # the result is a PERMUTATION of the input: every member as often as before - also members that differ only in case or in type
        for a in arrays + [[3, "3", 10], ["bob", "Alice", "Bob"], ["a", "A", "a"], [1, 1.5, "1", "1.5"], ["x", "X", "x", "X", "y"], [True, "true", 2, "2", 2]]:
            for call in ["sort(a)", "sort(a, true)", "reverse(a)", "reverse(a, true)", "sort(a, false)", "reverse(sort(a, true))"]:
                src = ("a = %s; s = %s; n = 0; foreach x in a { c1 = 0; c2 = 0; foreach y in a { if (string(y) == string(x) && type(y) == type(x)) { c1++; } } "
                       "foreach y in s { if (string(y) == string(x) && type(y) == type(x)) { c2++; } } if (c1 == c2) { n++; } } return [n, len(s)];" % (lit(a), call))
                out.append(case(src, enc_value([len(a), len(a)]), "sort-permutation"))
        # join / split
        for s in ["", "a", "a,b,c", ",a,,b,", "héllo wörld", "aXXbXXc", "日本,語"]:
            for d in [",", "XX", " ", "", "ö"]:
                if d == "":
                    parts = list(s)
                else:
                    parts = s.split(d)
                out.append(case("return split(%s, %s);" % (lit(s), lit(d)), enc_value(parts), "split"))
                out.append(case("return join(split(%s, %s), %s);" % (lit(s), lit(d), lit(d)), enc_value(s), "join-split"))
        # simple contracts
        for s in ["", "abc", "HeLLo", "  pad  ", "héllo", "ÀÉ", "\tx\n"]:
            out.append(case("return len(%s);" % lit(s), "i%d" % len(s), "len"))
            out.append(case("return lower(%s);" % lit(s), enc_value(s.lower()), "lower"))
            out.append(case("return upper(%s);" % lit(s), enc_value(s.upper()), "upper"))
            out.append(case("return trim(%s);" % lit(s), enc_value(s.strip()), "trim"))
        for v, ty in [(1, "integer"), (1.5, "float"), ("s", "string"), (True, "boolean"), (None, "null"), ([1], "array"), ({"a": 1}, "hash")]:
            out.append(case("return type(%s);" % lit(v), enc_value(ty), "type"))
            if not isinstance(v, dict):
                out.append(case("return string(%s);" % lit(v), enc_value(insp(v)), "string"))
        out.append(case("return type(/a/);", enc_value("regexp"), "type"))
        for s, v in [("12", 12), ("-7", -7), ("+3", 3), ("x", None), ("", None), ("1.5", None), ("9223372036854775807", 9223372036854775807),
                     ("9223372036854775808", None), (" 1", None),
                     ("010", 10), ("-012", -12), ("08", 8), ("09", 9), ("007", 7), ("0123456789", 123456789), ("0x10", None), ("0X1f", None),
                     ("0b11", None), ("0o17", None), ("1_000", None), ("0_1", None), ("00", 0), ("-0", 0), ("1e3", None), ("١٢", None),
                     ("12 ", None), ("--1", None), ("+-1", None), ("+", None), ("-", None), ("-9223372036854775808", -9223372036854775808),
                     ("-9223372036854775809", None), ("000000000000000000000000012", 12)]:
            out.append(case("return int(%s);" % lit(s), enc_value(v), "int"))
        for s, v in [("1.5", 1.5), ("-2", -2.0), ("x", None), ("", None), ("1e3", 1000.0), (".5", 0.5), ("010", 10.0), 
                     ("inf", float("inf")), ("-Inf", float("-inf")), ("1e400", None), (" 1", None), ("5.", 5.0), ("0x1p-2", 0.25), ("1e", None), ("+.5e1", 5.0)]:
            out.append(case("return float(%s);" % lit(s), enc_value(v), "float"))
        # a value that is not a number lies in no interval: between agrees with the language's own <= there too
        for src in ['v = float("nan"); return between(v, 1, 2);', 'v = float("NaN"); return between(v, 0 - 5, 5.5);', 'v = float("nan"); return between(1, v, 2);',
                    'v = float("nan"); return between(1, 0, v);', 'v = float("nan"); return (1 <= v && v <= 2);', 'v = float("nan"); return between(v, v, v);']:
            out.append(case(src, "b0", "between-nan"))
        out.append(case('v = float("inf"); return [between(v, 1, 2), between(5, 1, v), between(v, v, v)];', enc_value([False, True, True]), "between-nan"))
        out.append(case("return int(3);", "i3", "int"))
        out.append(case("return float(3);", enc_value(3.0), "float"))
        # match: any line, trimmed
        for s, re, m in [("hello", "/ell/", True), ("hello", "/^ell/", False), ("a\nbcd\ne", "/^bcd$/", True), ("  x  ", "/^x$/", True),
                         ("ABC", "/abc/", False), ("ABC", "/abc/i", True), ("abc", "/(/", False),
                         # every line is offered to the pattern - the empty ones too: after a final newline, between two newlines, the empty string
                         ("a\n", "/^$/", True), ("", "/^$/", True), ("abc\n\nd", "/^$/", True), ("x", "/^$/", False), ("a\nb", "/^$/", False), ("\n", "/^$/", True),
                         ("a\n", "/^a?$/", True), ("", "/^.*$/", True), ("", "/x*/", True), ("a\n  ", "/^$/", True), ("q\n", "/^[^q]*$/", True)]:
            out.append(case("return match(%s, %s);" % (lit(s), re), "b1" if m else "b0", "match"))
            out.append(case("return (%s ~= %s);" % (lit(s), re), "b1" if m else "b0", "match-op"))
        out.append(case('return replace("hello world", /o/, "0");', enc_value("hell0 w0rld"), "replace"))
        out.append(case('return replace("abc", /(b)/, "[$1]");', enc_value("a[b]c"), "replace"))
        # time
        fields = ["hour", "minute", "seconds", "day", "month", "year", "weekday"]
        zones = ZONES if tier == "thorough" else ZONES[:3]
        instants = INSTANTS + ([rng.randrange(-2208988800, 4102444800) for _ in range(300)] if tier == "thorough" else [rng.randrange(-2208988800, 4102444800) for _ in range(20)])
        for z in zones:
            zi = zoneinfo.ZoneInfo(z)
            for t in instants:
                d = datetime.datetime.fromtimestamp(t, zi) if t >= -62135596800 else None
                vals = [d.hour, d.minute, d.second, d.day, d.month, d.year, d.strftime("%A")]
                src = "t = %s; return [%s];" % (lit(t), ", ".join("%s(t)" % f for f in fields))
                out.append(case(src, enc_value(vals), "time-" + z, tz=z))
        # wrong arity / wrong types: null (false for match), never a crash
        allb = ["between", "float", "int", "join", "keys", "len", "lower", "match", "max", "min", "replace", "reverse", "sort", "split",
                "sprintf", "string", "trim", "type", "upper", "hour", "minute", "seconds", "day", "month", "year", "weekday", "getenv"]
        arity = {"between": [3], "float": [1], "int": [1], "join": [2], "keys": [1], "len": [1], "lower": [1], "match": [2], "max": [2],
                 "min": [2], "replace": [3], "reverse": [1, 2], "sort": [1, 2], "split": [2], "string": [1], "trim": [1], "type": [1],
                 "upper": [1], "hour": [1], "minute": [1], "seconds": [1], "day": [1], "month": [1], "year": [1], "weekday": [1], "getenv": [1],
                 "sprintf": [1, 2, 3, 4]}
        pool = ['"a"', "1", "1.5", "true", "[1]", '{"a":1}', "nosuch", "/a/"]
        for b in allb:
            for n in range(0, 5):
                if n in arity[b]:
                    continue
                args = ", ".join(rng.choice(pool) for _ in range(n))
                exp = "b0" if b == "match" else "n"
                out.append(case("return %s(%s);" % (b, args), exp, "arity"))
        typed = {"between": ['"a", 1, 2', '1, "a", 2', "1, 2, [3]"], "join": ['"a", ","', '[1], 2'], "keys": ["[1]", '"a"', "1"],
                 "sort": ['"a"', "1", '[1], 1'], "reverse": ['"a"', '[1], "x"'], "split": ['1, ","', '"a", 1', "[1], [2]"],
                 "sprintf": ["1", "[1]", "nosuch"], "hour": ['"a"', "1.5", "[1]"], "year": ["true"], "weekday": ["nosuch"], "month": ['"1"']}
        for b, lst in typed.items():
            for args in lst:
                out.append(case("return %s(%s);" % (b, args), "n", "wrong-type"))
        # anything goes for the stringifying ones: a value, never a crash
        for b in ["len", "lower", "upper", "trim", "string", "type", "int", "float", "min", "max"]:
            for a in pool:
                args = a if b not in ("min", "max") else "%s, %s" % (a, rng.choice(pool))
                out.append(case("return %s(%s);" % (b, args), None, "any-type"))
        # random built-in calls (every arity 0-4, every argument type, fields of the object) judged against the model
        import gen
        for _ in range(30000 if tier == "thorough" else 300):
            src = gen.builtin_program(rng)
            out.append(Case("run", gen.struct_case(rng, src, ["prepare:" + rng.choice(["opt", "noopt"]), "exec:0"]), "random-builtins", note=src))
        return out

PROP = C17()

"""C10 - scripts are confined: no file, network or process access."""
import os, re, subprocess
from runner import Prop, Case
import gen, vlib

ALL_BUILTINS = [
    'between(1, 0, 2)', 'float("1.5")', 'getenv("HOME")', 'getenv("PATH")', 'int("3")', 'join([1, 2], ",")', 'keys({"a": 1})', 'len("abc")',
    'lower("ABC")', 'match("abc", /b/)', 'max(1, 2)', 'min(1, 2)', 'now()', 'time()', 'print("x", 1, "\\n")', 'printf("%d %s\\n", 1, "a")',
    'replace("abc", /b/, "x")', 'reverse([1, 2])', 'sort([2, 1])', 'split("a,b", ",")', 'sprintf("%v", [1])', 'string(1.5)', 'trim(" a ")',
    'type(1)', 'upper("abc")', 'hour(0)', 'minute(0)', 'seconds(0)', 'day(0)', 'month(0)', 'year(0)', 'weekday(0)',
    'getenv("/etc/passwd")', 'print("/etc/passwd")', 'sprintf("%s", "/tmp/x")', 'match("/etc/passwd", /etc/)', 'replace("a", "/tmp/.*", "b")',
    'split("/etc/passwd", "/")', 'string(now())', 'hour(now())',
]

class C10(Prop):
    id = "C10"
    compare_run = True
    property_obs = ("crash",)
    rule = ("every built-in with ordinary and path-like / URL-like arguments, in four time zones, plus the generated program corpus and "
            "hostile objects, executed by a harness process that registers NO host function with outside effect, under "
            "`strace -f -e trace=%file,%network,%process,write` between two marker system calls: no open/creat/unlink/rename/mkdir/"
            "chmod/... of anything outside the time-zone database, no socket/connect/bind, no execve/fork/vfork/clone3-process, no write "
            "to a descriptor other than 1 and 2. non-trivial = script calls at least one built-in")

    def cases(self, rng, tier):
        out = []
        for b in ALL_BUILTINS:
            for tz in [None, "Europe/Helsinki", "America/New_York", "Nonexistent/Zone"]:
                f = {"script": vlib.hx("x = %s; return x;" % b), "objs": "N", "ops": "prepare:opt;exec:0;run:0"}
                if tz:
                    f["tz"] = tz
                out.append(Case("run", f, "builtins"))
        # an object that HAS methods (with outside effects): nothing a script writes may call them - fields are data, methods are not
        for kind in "89":
            obj = "K%s(%s,7)" % (kind, vlib.hx("report"))
            for src in ["return Discard;", "return [Name, Count, Touch, Secret, Size];", 'if (Name == "report" && Discard) { return 1; } return 0;', "x = Touch; y = $Secret; return len(Name);",
                        "foreach m in [Discard, Touch] { z = m; } return Size;", "function f() { return Secret; } return f();", "return Discard();", "return Name.Touch;"]:
                out.append(Case("run", {"script": vlib.hx(src), "objs": obj, "ops": "prepare:%s;exec:0;run:0" % rng.choice(["opt", "noopt"])}, "object-methods", note=src))
        n = 3000 if tier == "thorough" else 300
        for _ in range(n):
            g = gen.Gen(rng, max_depth=2, illtyped=0.1)
            f = gen.struct_case(rng, g.program(depth=2), ["prepare:" + rng.choice(["opt", "noopt"]), "exec:0"])
            out.append(Case("run", f, "programs"))
        return out

    def judge(self, case, go, model):
        return []

    def extra_checks(self, tier, st, rng=None, cases=None, go=None):
        path = os.path.join(vlib.BUILD, "cases", "c10-%d.txt" % os.getpid())
        log = os.path.join(vlib.BUILD, "cases", "c10-%d.strace" % os.getpid())
        os.makedirs(os.path.dirname(path), exist_ok=True)
        open(path, "w").write("\n".join(c.line() for c in cases) + "\n")
        env = dict(os.environ)
        env.pop("TZ", None)
        p = subprocess.run(["strace", "-f", "-qq", "-e", "trace=%file,%network,%process,write,eventfd2,pipe2", "-o", log,
                            os.path.join(vlib.BUILD, "harness"), "confine", path], stdout=subprocess.DEVNULL, stderr=subprocess.PIPE, timeout=900, env=env)
        viol = []
        ran = len([l for l in p.stderr.decode("utf-8", "replace").splitlines() if l.startswith("id=")])
        inside = False
        counts = {}
        allowed_open = re.compile(r'"(/usr/share/zoneinfo|/usr/lib/go[^"]*/lib/time|/usr/share/lib/zoneinfo|/usr/lib/locale/TZ|/etc/zoneinfo)')
        n_inside = 0
        try:
            lines = open(log, errors="replace").read().splitlines()
        except OSError:
            lines = []
        runtime_fds = set()
        for l in lines:
            m = re.match(r"^\d+\s+eventfd2\(.*\)\s+=\s+(\d+)", l)
            if m:
                runtime_fds.add(m.group(1))       # the Go runtime's own wake-up descriptors
            m = re.match(r"^\d+\s+pipe2\(\[(\d+), (\d+)\]", l)
            if m:
                runtime_fds.update(m.groups())
            # (strace -f splits a call that another thread interrupts into `<unfinished ...>` and `<... resumed>` lines)
            m = re.match(r"^\d+\s+<\.\.\. eventfd2 resumed>.*\)\s+=\s+(\d+)", l)
            if m:
                runtime_fds.add(m.group(1))
            m = re.match(r"^\d+\s+<\.\.\. pipe2 resumed>\s*\[(\d+), (\d+)\]", l)
            if m:
                runtime_fds.update(m.groups())
            if "VERIF-MARKER-START" in l:
                inside = True
                continue
            if "VERIF-MARKER-END" in l:
                inside = False
                continue
            if not inside:
                continue
            m = re.match(r"^\d+\s+(\w+)\(", l)
            if not m:
                continue
            sysc = m.group(1)
            n_inside += 1
            counts[sysc] = counts.get(sysc, 0) + 1
            if sysc == "write":
                fd = re.match(r"^\d+\s+write\((\d+),", l)
                if fd and fd.group(1) not in ("1", "2") and fd.group(1) not in runtime_fds:
                    viol.append((None, "write to descriptor %s while scripts run: %s" % (fd.group(1), l[:160])))
            elif sysc in ("openat", "open", "stat", "newfstatat", "lstat", "access", "faccessat", "faccessat2", "readlink", "readlinkat", "statx"):
                if sysc in ("openat", "open") and ("O_WRONLY" in l or "O_RDWR" in l or "O_CREAT" in l):
                    viol.append((None, "a file was opened for writing while scripts run: %s" % l[:200]))
                elif sysc in ("openat", "open") and not allowed_open.search(l) and "ENOENT" not in l:
                    viol.append((None, "a file outside the time-zone database was opened while scripts run: %s" % l[:200]))
            elif sysc == "clone" and "CLONE_THREAD" in l:
                pass            # a Go runtime thread, not a process
            elif sysc in ("exit", "exit_group", "wait4", "rt_sigreturn"):
                pass
            elif sysc in ("eventfd2", "pipe2"):
                pass
            elif sysc == "tgkill" and "SIGURG" in l:
                pass            # the Go scheduler preempting one of its own threads
            else:
                viol.append((None, "system call %s while scripts run: %s" % (sysc, l[:200])))
        if p.returncode != 0 or ran != len(cases):
            viol.append((None, "confinement run failed: rc=%s, %d of %d cases ran: %s" % (p.returncode, ran, len(cases), p.stderr.decode("utf-8", "replace")[-300:])))
        if not any("VERIF-MARKER-END" in l for l in lines):
            viol.append((None, "strace log incomplete (no end marker)"))
        for f in (path, log):
            try:
                os.remove(f)
            except OSError:
                pass
        return viol[:20], {"strace_syscalls_while_scripts_run": n_inside, "syscall_histogram": counts, "cases_under_strace": ran}

PROP = C10()

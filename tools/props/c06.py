"""C06 - functions and scopes: locals stay local, everything else is global."""
from runner import Prop, Case
import gen, vlib
from gen import enc_value, enc_struct

TEMPLATES = [
    # (script, expected value, expected vars subset {name: value} or None, class)
    # a function called from INSIDE a loop assigns to names that are the caller's loop variables / locals: those assignments are global
    ("function clobber() { v = 99; i = 77; return 0; } t = 0; foreach i, v in [1, 2, 3] { clobber(); t = t + v + i; } return [t, v, i];", [9, 99, 77], {"v": 99, "i": 77}, "ok"),
    ("function set(n) { item = n; left = left - 1; return left; } left = 2; r = []; foreach item in [10, 20] { x = set(5); y = item; } return [x, y, item, left];", [0, 20, 5, 0], {"item": 5, "left": 0}, "ok"),
    ("function inner() { q = 1; return q; } function outer() { local q; q = 7; foreach k in [1] { z = inner(); } return q; } return [outer(), q];", [7, 1], {"q": 1}, "ok"),
    ("function bump() { c++; return c; } c = 0; foreach c2 in [1, 2] { foreach c in [10] { bump(); } } return c;", 2, {"c": 2}, "ok"),
    ("function w() { ch = \"Z\"; return ch; } s = \"\"; foreach ch in \"ab\" { w(); s = s + ch; } return [s, ch];", ["ab", "Z"], None, "ok"),
    # what a call or a loop bound is GONE when it ends: the next scope opened at the same depth (a loop, another call) does not see it
    ("function f(p) { local q; q = 5; return p; } a = f(3); foreach x in [1] { r = [p, q]; } return [a, r];", [3, [None, None]], None, "ok"),
    ("function f(p) { return p; } function g() { return p; } a = f(3); return [a, g()];", [3, None], None, "ok"),
    ("foreach v in [7] { w = v; } function h() { return v; } return [w, h()];", [7, None], None, "ok"),
    ("function f(p) { foreach i in [1, 2] { local z; z = i; } return p; } function g(u) { foreach j in [9] { y = [i, z, p]; } return y; } a = f(4); return g(0);", [None, None, None], None, "ok"),
    ("function f(n) { if (n == 0) { return 0; } local keep; keep = n; return f(n - 1); } f(3); function look() { return [n, keep]; } return look();", [None, None], None, "ok"),
    # parameters, locals and loop variables written with the legacy `$` prefix are the same variables
    ("function f($a) { $a = $a + 5; return a; } a = 10; r = f(2); return [r, a, $a];", [7, 10, 10], {"a": 10}, "ok"),
    ("function inc($n) { return $n + 1; } function fact($k) { if ($k <= 1) { return 1; } return k * fact(k - 1); } return [inc(2), fact(4)];", [3, 24], None, "ok"),
    ("function g($p, q) { local $l; $l = p + $q; return [l, $p, q]; } return g(1, 2);", [3, 1, 2], None, "ok"),
    ("t = 0; foreach $i, $v in [5, 6] { t = t + i + v; } return t;", 12, None, "ok"),
    ("function fact(n) { if (n <= 1) { return 1; } return fact(n - 1) * n; } return fact(5);", 120, None, "ok"),
    ("function fib(n) { if (n < 2) { return n; } return fib(n - 1) + fib(n - 2); } return fib(10);", 55, None, "ok"),
    ("function f(a) { a = a + 1; return a; } a = 10; r = f(a); return [a, r];", [10, 11], {"a": 10, "r": 11}, "ok"),
    ("function f() { local x; x = 5; return x; } x = 1; r = f(); return [x, r];", [1, 5], {"x": 1}, "ok"),
    ("function g() { local x; x = 7; return x; } function f() { local x; x = 3; y = g(); return [x, y]; } return f();", [3, 7], None, "ok"),
    ("function f(x) { foreach x in [1, 2] { n = x; } return x; } return f(9);", 9, None, "ok"),
    ("function f() { foreach i, v in [7, 8] { if (v == 8) { return i; } } return -1; } r = f(); return [r, i, v];", [1, None, None], None, "ok"),
    ("function f() { w = 0; while (w < 10) { foreach c in \"abc\" { if (c == \"b\") { return w; } } w = w + 1; } return 99; } return f();", 0, None, "ok"),
    ("function f() { g = 42; } r = 0; f(); return g;", 42, {"g": 42}, "ok"),
    ("r = late(3); return r; function late(n) { return n * 2; }", 6, None, "ok"),
    ("function f(a, b) { return a; } return f(1);", None, None, "script-error"),
    ("function f(a) { return a; } return f(1, 2);", None, None, "script-error"),
    ("return nosuchfunction(1);", None, None, "script-error"),
    ("function len(x) { return 99; } return len(\"abc\");", 3, None, "ok"),
    ("function f() { return; } return 1;", None, None, "prepare-error"),
    ("function noret() { x = 1; } r = 5; noret(); return r;", 5, None, "ok"),
    ("function f(n) { switch (n) { case 1 { return \"one\"; } default { return \"many\"; } } } return [f(1), f(2)];", ["one", "many"], None, "ok"),
    ("function f(p) { p++; return p; } a = 1; b = f(a); return [a, b];", [1, 2], None, "ok"),
    ("function outer(a) { return inner(a + 1) + a; } function inner(a) { return a * 10; } return outer(1);", 21, None, "ok"),
    ("function f(n) { local t; t = n; if (n > 0) { f(n - 1); } return t; } return f(3);", None, None, None),
    ("function f() { foreach x in [1] { foreach y in [2] { return x + y; } } } a = f(); b = f(); return [a, b];", [3, 3], None, "ok"),
    ("function boom() { return 1 / 0; } function safe() { return 2; } a = safe(); return a;", 2, None, "ok"),
    ("function f() { 24; } foreach x in [1, 2] { f(); } return 5;", 5, None, "ok"),
    ("function g() { x = 5; } function f() { local x; x = 1; g(); return x; } r = f(); return [r, x];", [1, 5], None, "ok"),
    ("function g() { return x; } function f(x) { return g(); } x = 7; return f(1);", 7, None, "ok"),
    ("function g() { n = n + 1; } function f() { foreach n in [10] { g(); t(n); } } n = 1; f(); return n;", 2, None, "ok"),
    ("function f() { x = 1; 24; } n = 0; foreach i in 1..3 { f(); n = n + 1; } return n;", 3, None, "ok"),
    ("function f(i, l) { foreach i, v in l { } return i; } return f(42, [\"a\", \"b\", \"c\"]);", 42, None, "ok"),
    ("function f(l) { local n; n = \"count\"; foreach n, v in l { } return n; } return f([\"a\", \"b\"]);", "count", None, "ok"),
    ("function f(v, l) { foreach i, v in l { } return v; } return f(42, [\"a\", \"b\", \"c\"]);", 42, None, "ok"),
    ("t = 0; foreach i, row in [[10, 20, 30], [40, 50, 60]] { foreach i, v in row { } t = t + i; } return t;", 1, None, "ok"),
    ("t = 0; foreach row in [[1, 2], [3]] { foreach row in row { t = t + row; } t = t + len(row); } return t;", 9, None, "ok"),
]

def shadow_program(rng):
    """A loop variable named like something already local to the running function (a parameter, a `local`,
    the variable of an enclosing loop) or like a global, read again after the loop."""
    names = ["a", "b", "x", "n", "p"]
    X = rng.choice(names)
    Y = rng.choice(names)
    coll = rng.choice(['[7, 8, 9]', '"xyz"', '{"k": 1, "j": 2}', '2..4', '[]', 'l'])
    two = rng.random() < 0.7
    head = "foreach %s, %s in %s" % (X, Y, coll) if two else "foreach %s in %s" % (X, coll)
    body = rng.choice(["", "q = %s;" % X, "%s = 100;" % X, "%s++;" % Y, "t(%s);" % X, "if (%s == 8) { break; }" % Y if False else "r = %s;" % Y])
    loop = "%s { %s }" % (head, body)
    if rng.random() < 0.3:
        loop = "foreach %s, %s in [[1, 2], [3]] { %s w = %s; }" % (rng.choice([X, Y, "z"]), rng.choice(["l", "m"]), loop, X)
    kind = rng.randint(0, 3)
    if kind == 0:      # parameter
        return "function f(%s, l) { %s return [%s, %s]; } %s = \"g\"; r = f(41, [5, 6]); return [r, %s];" % (X, loop, X, Y, X, X)
    if kind == 1:      # local
        return "function f(l) { local %s; %s = \"loc\"; %s return [%s, %s]; } %s = \"g\"; r = f([5, 6]); return [r, %s, %s];" % (X, X, loop, X, Y, Y, X, Y)
    if kind == 2:      # global at top level
        return "l = [5, 6]; %s = \"g\"; %s = \"h\"; %s return [%s, %s];" % (X, Y, loop, X, Y)
    # the callee's loop variable against the caller's local of the same name
    return ("function g(l) { %s return 1; } function f(l) { local %s; %s = \"mine\"; g(l); return %s; } return [f([5, 6]), %s];" % (loop, X, X, X, X))


class C06(Prop):
    id = "C06"
    compare_run = True
    property_obs = ("class", "value", "truth", "trace", "vars", "get", "prep", "scopes")
    rule = ("(a) hand-written scope scenarios (recursion, shadowing by parameters / local / loop variables, returns from inside nested "
            "foreach/while/switch, forward calls, arity errors, unknown functions, built-in vs user function) with expectations written in "
            "the generator; (b) random function-heavy programs with all names drawn from {a,b,x,n,p} so that parameters, locals, loop "
            "variables and globals clash, calls nested to depth 3, judged against the model; every run also reports the number of open "
            "scopes afterwards (must be 0) and the variables left behind; each script is run twice on one evaluator; (c) shadowing programs: a "
            "foreach index/value variable named like a parameter, a local, the variable of an enclosing loop, a global or a caller's local, "
            "the outer variable being read again after the loop")

    def cases(self, rng, tier):
        out = []
        for (src, val, vars_, klass) in TEMPLATES:
            ops = ["addfn:%s:void" % vlib.hx("t"), "prepare:" + rng.choice(["opt", "noopt"]), "exec:0", "exec:0"]
            exp = {}
            if klass == "prepare-error":
                exp["o1.prep"] = "error"
            elif klass is not None:
                for k in (2, 3):
                    exp["o%d.class" % k] = klass
                    exp["o%d.scopes" % k] = "0"
                    if val is not None:
                        exp["o%d.value" % k] = enc_value(val)
            out.append(Case("run", {"script": vlib.hx(src), "objs": "N", "ops": ";".join(ops)}, "templates", expect=exp, note=src))
        n = 8000 if tier == "thorough" else 700
        for _ in range(n):
            g = gen.Gen(rng, max_depth=2, illtyped=0.03)
            src = g.program(nstmts=rng.randint(1, 5), nfuncs=rng.randint(1, 3), depth=2)
            # make names clash: rename generated fresh names onto a small alphabet
            for i in range(1, 12):
                for pre in ("v", "e", "i"):
                    src = src.replace("%s%d" % (pre, i), rng.choice(["a", "b", "x", "n", "p"])) if rng.random() < 0.5 else src
            f = gen.struct_case(rng, src, ["prepare:" + rng.choice(["opt", "noopt"]), "exec:0", "exec:0"] +
                                ["getvar:" + vlib.hx(v) for v in ("a", "b", "x", "n", "p")])
            out.append(Case("run", f, "random", nontrivial="function" in src))
        # a run that is aborted INSIDE a user function - by a Go panic (integer % 0, panic(), a panicking host function), a run-time
        # error or normally - and then the same evaluator again: the next runs start from the main program with no frame left over
        for _ in range(2000 if tier == "thorough" else 150):
            boom = rng.choice(["r = a % b;", "if (b == 0) { panic(\"stop\"); } r = a % b;", "if (b == 0) { hp(); } r = a % b;", "if (b == 0) { r = a + \"x\"; } r = a % b;",
                               "if (b == 0) { return nosuch(1); } r = a % b;"])
            inner = rng.choice(["%s", "foreach i in [1, 2] { %s }", "if (a > 0) { %s }", "switch (a) { case 0 { } default { %s } }"]) % boom
            outer = rng.choice(["return share(a, b) == 1;", "foreach q in [1] { return share(a, b) == 1; }", "x = share(a, b); return x == 1;"])
            src = ("function share(a, b) { local r; %s return r; } function check(a, b) { %s } calls = calls + 1; verdict = check(Total, Parts); return verdict;" % (inner, outer))
            objs = [enc_struct([("Total", 7), ("Parts", 3)]), enc_struct([("Total", 7), ("Parts", 0)]), enc_struct([("Total", 8), ("Parts", 3)])]
            ops = ["setvar:%s:i0" % vlib.hx("calls"), "addfn:%s:panic" % vlib.hx("hp"), "prepare:" + rng.choice(["opt", "noopt"]), "exec:0", "exec:1"]
            ops += rng.choice([["exec:0", "run:2"], ["run:2", "exec:0"], ["exec:1", "exec:0", "exec:2"]])
            ops += ["getvar:" + vlib.hx(v) for v in ("calls", "verdict", "a", "b", "r", "i", "q")]
            exp = {"o3.class": "ok", "o3.value": "b1"}
            for j, op in enumerate(ops):
                if op == "exec:0" and j > 4:
                    exp["o%d.class" % j] = "ok"; exp["o%d.value" % j] = "b1"; exp["o%d.scopes" % j] = "0"
                if op == "exec:2":
                    exp["o%d.class" % j] = "ok"; exp["o%d.value" % j] = "b0"
            out.append(Case("run", {"script": vlib.hx(src), "objs": ";".join(objs), "ops": ";".join(ops)}, "abort-inside-function", expect=exp, note=src))
        for _ in range(3000 if tier == "thorough" else 300):
            src = shadow_program(rng)
            f = gen.struct_case(rng, src, ["prepare:" + rng.choice(["opt", "noopt"]), "exec:0", "exec:0"] +
                                ["getvar:" + vlib.hx(v) for v in ("a", "b", "x", "n", "p")])
            out.append(Case("run", f, "shadowing", note=src))
        return out

    def judge(self, case, go, model):
        out = Prop.judge(self, case, go, model)
        for k, v in go.items():
            if k.endswith(".scopes") and v != "0":
                out.append("%s: %s scope(s) left open after the run" % (k, v))
        return out

PROP = C06()

#!/usr/bin/env python3
import json, sys, collections
rows = [json.loads(l) for l in open(sys.argv[1])]
n = int(sys.argv[2]) if len(sys.argv) > 2 else 12
by = collections.Counter()
for r in rows:
    if "diff" in r:
        by[tuple(sorted(set(d.split(".", 1)[1] if "." in d else d for d in r["diff"])))] += 1
    else:
        by[("oracle",)] += 1
print(len(rows), "rows;", by.most_common(12))
rows.sort(key=lambda r: len(r["script"]))
for r in rows[:n]:
    print("-----", repr(r["script"]), r["fields"].get("ops", ""))
    if "diff" in r:
        for d in r["diff"][:3]:
            g, m = str(r["go"].get(d)), str(r["model"].get(d))
            print("   ", d, "\n      go   :", g[:300], "\n      model:", m[:300])
    else:
        print("    oracle:", r["oracle"][:300])

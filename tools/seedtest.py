#!/usr/bin/env python3
"""Run checks against a patched scratch copy of the repository (never /repo itself).
usage: seedtest.py <patch.diff> <Cxx> [<Cyy> ...]   [--reverse]  [--slot N]
Prints, per check, whether a VIOLATION was reported."""
import sys, os, subprocess, shutil, json
args = [a for a in sys.argv[1:] if not a.startswith("--")]
reverse = "--reverse" in sys.argv
slot = "0"
if "--slot" in sys.argv:
    slot = sys.argv[sys.argv.index("--slot") + 1]
    args.remove(slot)
patch, checks = args[0], args[1:]
base = "/tmp/mt%s" % slot
repo, verif = base + "/repo", base + "/verif"
os.makedirs(base, exist_ok=True)
subprocess.run(["rsync", "-a", "--delete", "--exclude", ".git", "/repo/", repo + "/"], check=True)
subprocess.run(["rsync", "-a", "--delete", "--exclude", ".git", "--exclude", "build/replay", "--exclude", "build/cases", "/verif/", verif + "/"], check=True)
r = subprocess.run(["patch", "-p1", "--no-backup-if-mismatch"] + (["-R"] if reverse else []) + ["-i", os.path.abspath(patch)], cwd=repo, capture_output=True, text=True)
if r.returncode != 0:
    print("PATCH-FAILED", r.stdout[-500:], r.stderr[-300:])
    sys.exit(2)
env = dict(os.environ, VERIF_REPO=repo, GOFLAGS="-mod=mod", GOPROXY="off", GOSUMDB="off", GOTOOLCHAIN="local")
t = subprocess.run("go build ./... && go test -vet=off -count=1 ./... 2>&1 | grep -v '^ok\\|no test files'", shell=True, cwd=repo, env=env, capture_output=True, text=True)
print("suite:", "PASS" if not t.stdout.strip() and t.returncode in (0, 1) else "FAIL " + t.stdout[-400:] + t.stderr[-300:])
res = {}
for c in checks:
    p = subprocess.run(["./check", c], cwd=verif, env=env, capture_output=True, text=True, timeout=3000)
    viol = [l for l in p.stdout.splitlines() if l.startswith("VIOLATION")]
    known = [l for l in p.stdout.splitlines() if l.startswith("KNOWN")]
    summary = [l for l in p.stderr.splitlines() if "cases," in l]
    res[c] = dict(rc=p.returncode, violations=len(viol), first=viol[:1], summary=summary[-1:] )
    print(c, "rc=%d" % p.returncode, "VIOLATIONS=%d" % len(viol), (viol[0] if viol else ""), summary[-1][-160:] if summary else p.stderr[-300:])
    if viol:
        rp = viol[0].split("replay=")[1].split()[0]
        try:
            d = json.load(open(os.path.join(verif, rp)))
            print("   what:", d.get("what", "")[:300])
            if d.get("case"):
                print("   script:", repr(d["case"].get("script", ""))[:200])
        except Exception as e:
            print("   (replay unreadable)", e)

"""Generic check flow (DESIGN 3.5): build, proof status, correspondence,
property oracle, known findings, evidence, VIOLATION lines."""
import os, sys, json, time, random, importlib
import vlib
from vlib import log

MAX_REPORT = 5

class Case:
    """One generated case.
    line    : the case-file line (without id)   -> kind + fields
    expect  : dict of observables the PROPERTY demands (independent of the model), or None
    stream  : name of the generator stream
    nontrivial: bool (by the property's rule)
    note    : free text for replay files
    """
    __slots__ = ("cid", "kind", "fields", "expect", "stream", "nontrivial", "note", "group", "tags")
    def __init__(self, kind, fields, stream, expect=None, nontrivial=True, note="", group=None):
        self.kind, self.fields, self.stream, self.expect = kind, fields, stream, expect
        self.nontrivial, self.note, self.group = nontrivial, note, group
        self.cid = None
        self.tags = set()
    def line(self):
        return vlib.case_line(self.cid, self.kind, **self.fields)
    def key(self):
        return self.kind + "\t" + "\t".join("%s=%s" % kv for kv in sorted(self.fields.items()))
    def describe(self):
        d = {"kind": self.kind, "stream": self.stream}
        for k, v in self.fields.items():
            if k in ("script",):
                d[k] = vlib.unhxs(v)
                d[k + "_hex"] = v
            else:
                d[k] = v
        if self.note:
            d["note"] = self.note
        return d

def expand(kv):
    """Split the o<k> results of a run case into named observables."""
    if kv is None or "n" not in kv:
        return kv
    out = dict(kv)
    stop = None
    for k in range(int(kv.get("n", "0"))):
        r = kv.get("o%d" % k)
        if r is None:
            continue
        out.pop("o%d" % k)
        p = r.split("|")
        pre = "o%d." % k
        if p[0] == "P":
            out[pre + "prep"] = p[1]
            if len(p) > 3:
                out[pre + "uprog"] = p[2]
                out[pre + "prog"] = p[3]
        elif p[0] in ("E", "R"):
            out[pre + "class"] = p[1]
            out[pre + ("value" if p[0] == "E" else "truth")] = p[2]
            out[pre + "trace"], out[pre + "vars"], out[pre + "scopes"], out[pre + "residue"] = p[3], p[4], p[5], p[6]
            if len(p) > 7 and p[7]:
                out[pre + "inspect"] = p[7]
        elif p[0] == "G":
            out[pre + "get"] = p[1]
        elif p[0] == "U":
            out[pre + "unit"] = "1"
        elif p[0] == "X":
            out[pre + "crash"] = "1"
        elif p[0] in ("N", "Q"):
            stop = k
            break
    if stop is not None:
        out["need_from"] = str(stop)
    # the reference interpreter's verdicts (model side only): s<k>=class|value|trace|vars or "na"
    for k in [x for x in kv if x[0] == "s" and x[1:].isdigit()]:
        out.pop(k)
        if kv[k] != "na":
            p = kv[k].split("|")
            out["spec%s" % k[1:]] = dict(zip(("class", "value", "trace", "vars"), p))
    return out

def spec_mismatches(m):
    """Where the reference interpreter (Spec/Exec.v) and the byte-code model disagree (both inside the model)."""
    bad = []
    for k, sp in m.items():
        if not k.startswith("spec"):
            continue
        i = k[4:]
        pre = "o%s." % i
        if pre + "class" not in m:
            continue
        for f in ("class", "value", "trace", "vars"):
            if f == "value" and pre + "value" not in m:
                continue
            if m.get(pre + f) != sp.get(f):
                bad.append("%s%s: byte-code model %s, reference interpreter %s" % (pre, f, m.get(pre + f), sp.get(f)))
    return bad

def obs_suffix(o):
    return o.split(".", 1)[1] if "." in o else o

class Prop:
    id = "C00"
    need_cli = False
    # observables compared between Go and model; those in `property_obs` are
    # the ones the property itself talks about (a difference there is a
    # failing input), the others are internal stages (correspondence only).
    compare_obs = ()
    property_obs = ()
    compare_run = False          # compare every o<k>.<obs> of run cases
    ignore_obs = ("inspect",)    # observable suffixes not compared between Go and model
    rule = ""
    def cases(self, rng, tier):
        return []
    def corpus(self):
        return []
    def judge(self, case, go, model):
        """Property oracle on one case: list of violation descriptions (Go contradicts the property)."""
        out = []
        if case.expect:
            for k, v in case.expect.items():
                if go.get(k) != v:
                    out.append("observable %s: implementation gives %s, the property demands %s" % (k, go.get(k), v))
        return out
    def judge_groups(self, groups, go_results):
        """Relational oracle over groups of cases (Go against Go). groups: name -> [cases]."""
        return []
    def model_dropped(self, model):
        return (model is None or "need" in model or "unsupported" in model or model.get("tokens") == "FUEL"
                or "fuel" in model or "driver_error" in model or model.get("need_from") == "0")
    def extra_checks(self, tier, st, rng=None, cases=None, go=None):
        """Property-specific checks beyond the case streams (second phases, relational runs,
        process-level checks).  Returns (violations [(case, descr)], info dict merged into the evidence)."""
        return [], {}
    def in_class(self, klass, case):
        return False

def load_corpus(prop):
    path = os.path.join(vlib.ROOT, "corpus", "%s.txt" % prop.id)
    out = []
    if os.path.exists(path):
        for line in open(path):
            line = line.rstrip("\n")
            if not line or line.startswith("#"):
                continue
            kv = dict(f.split("=", 1) for f in line.split("\t") if "=" in f)
            kind = kv.pop("kind")
            kv.pop("id", None)
            expect = None
            if "expect" in kv:
                expect = json.loads(vlib.unhxs(kv.pop("expect")))
            out.append(Case(kind, kv, "corpus", expect=expect))
    return out

def known_match(kf, prop, case, descr):
    """Does a known finding cover this failing case?"""
    for f in kf:
        if f.get("property") != prop.id or f.get("status", "finding") != "finding":
            continue
        if "script_hex" in f and case is not None and case.fields.get("script") == f["script_hex"]:
            return f
        if "script" in f and case is not None and case.fields.get("script") == vlib.hx(f["script"]):
            if "kind" not in f or f["kind"] == case.kind:
                return f
        if "class" in f and case is not None and prop.in_class(f["class"], case):
            return f
    return None

def run_check(prop, tier, seed):
    t0 = time.time()
    rng = random.Random(seed * 1000003 + int(prop.id[1:]))
    st = vlib.build(need_cli=prop.need_cli)
    ps = vlib.proof_status(prop.id)
    kf = vlib.load_known_findings()
    violations = []      # (kind, case, descr, extra)
    known_lines = []

    cases = load_corpus(prop) + prop.corpus() + prop.cases(rng, tier)
    for i, c in enumerate(cases):
        c.cid = str(i)
    lines = [c.line() for c in cases]
    go, gocrash = ({}, [])
    model, mcrash = ({}, [])
    if st["harness"] and lines:
        go, gocrash = vlib.run_go(lines, tag=prop.id + "-go")
    if st["driver"] and lines:
        # standard-library answers observed on the Go side go to the model as oracle facts
        mlines = [l + ("\tora=" + go[c.cid]["ora"] if c.cid in go and "ora" in go[c.cid] else "") for l, c in zip(lines, cases)]
        model, mcrash = vlib.run_model(mlines, tag=prop.id + "-model")
    go = {k: expand(v) for k, v in go.items()}
    model = {k: expand(v) for k, v in model.items()}

    n_eval = 0
    spec_checked = 0
    spec_bad = []
    dropped = 0
    disagreements = []
    oracle_viol = []
    distinct = set()
    streams = {}
    for c in cases:
        g = go.get(c.cid)
        m = model.get(c.cid)
        streams.setdefault(c.stream, [0, 0])
        streams[c.stream][0] += 1
        if g is None:
            continue
        n_eval += 1
        if c.nontrivial:
            k = c.key()
            if k not in distinct:
                distinct.add(k)
                streams[c.stream][1] += 1
        for d in prop.judge(c, g, m):
            oracle_viol.append((c, d, g, m))
        if prop.model_dropped(m):
            dropped += 1
            continue
        sm = spec_mismatches(m)
        if sm and "prepare:opt" in c.fields.get("ops", "prepare:opt") and "√" in vlib.unhxs(c.fields.get("script", "")):
            sm = []      # the optimizer's square-root fold (known finding D5 of C03) is not part of the reference semantics
        spec_checked += sum(1 for k in m if k.startswith("spec"))
        if sm:
            spec_bad.append((c, sm, g, m))
        keys = [o for o in prop.compare_obs if o in g or o in m]
        if prop.compare_run:
            lim = int(m["need_from"]) if "need_from" in m else 10 ** 9
            keys += sorted(o for o in set(g) | set(m)
                           if o[0] == "o" and "." in o and o[1:].split(".")[0].isdigit() and int(o[1:].split(".")[0]) < lim
                           and obs_suffix(o) not in prop.ignore_obs)
        diff = [o for o in keys if g.get(o) != m.get(o)
                and not (obs_suffix(o) == "residue" and g.get(o.rsplit(".", 1)[0] + ".class") != "ok")]
        if "hang" in g or "harness_panic" in g:
            diff.append("harness")
        if diff:
            disagreements.append((c, diff, g, m))
    groups = {}
    for c in cases:
        if c.group is not None:
            groups.setdefault(c.group, []).append(c)
    for (c, d) in prop.judge_groups(groups, go):
        oracle_viol.append((c, d, go.get(c.cid), model.get(c.cid)))

    extra_viol, extra_info = prop.extra_checks(tier, st, rng, cases, go) if st["harness"] else ([], {})

    if os.environ.get("VERIF_DUMP"):
        with open(os.environ["VERIF_DUMP"], "w") as f:
            for (c, diff, g, m) in disagreements:
                f.write(json.dumps(dict(script=vlib.unhxs(c.fields.get("script", "")), fields=c.fields, diff=diff,
                                        go={o: g.get(o) for o in diff}, model={o: m.get(o) for o in diff})) + "\n")
            for (c, d, g, m) in oracle_viol:
                f.write(json.dumps(dict(script=vlib.unhxs(c.fields.get("script", "")), fields=c.fields, oracle=d)) + "\n")
            for (c, sm, g, m) in spec_bad:
                f.write(json.dumps(dict(script=vlib.unhxs(c.fields.get("script", "")), fields=c.fields, oracle="SPEC: " + "; ".join(sm))) + "\n")
    # ---- decide
    reported = 0
    seen_keys = set()
    def report(kind, case, descr, g=None, m=None, no_input=False, theorem=None):
        nonlocal reported
        f = known_match(kf, prop, case, descr)
        if f is not None:
            line = "KNOWN-FINDING: property=%s %s" % (prop.id, f.get("what", f.get("key", "")))
            if line not in known_lines:
                known_lines.append(line)
            return
        key = (kind, case.key() if case is not None else descr)
        if key in seen_keys:
            return
        seen_keys.add(key)
        violations.append((kind, descr))
        if reported < MAX_REPORT:
            reported += 1
            obj = dict(kind=kind, tier=tier, seed=seed, what=descr,
                       case=case.describe() if case is not None else None,
                       case_line=case.line() if case is not None else None,
                       implementation=g, model=m)
            if theorem:
                obj["no_longer_checks"] = theorem
            vlib.violation_line(prop.id, vlib.write_replay(prop.id, obj), no_input=no_input)

    for (c, d, g, m) in oracle_viol:
        report("property-violated", c, d, g, m)
    for (c, d) in extra_viol:
        report("property-violated", c, d)
    for (c, diff, g, m) in disagreements:
        pdiff = [o for o in diff if o in prop.property_obs or obs_suffix(o) in prop.property_obs]
        if pdiff:
            report("property-violated", c,
                   "implementation and proved model differ on %s (model=%s, implementation=%s)" %
                   (",".join(pdiff), {o: m.get(o) for o in pdiff}, {o: g.get(o) for o in pdiff}), g, m)
    internal = [(c, diff, g, m) for (c, diff, g, m) in disagreements
                if not [o for o in diff if o in prop.property_obs or obs_suffix(o) in prop.property_obs]]
    found_input = any(k == "property-violated" for k, _ in violations)
    if internal and not found_input:
        c, diff, g, m = internal[0]
        report("correspondence-broken", c,
               "implementation and model differ on internal stage(s) %s in %d case(s); no observable of the property differs on any explored input" % (",".join(diff), len(internal)),
               g, m, no_input=True, theorem="correspondence stage(s) " + ",".join(diff))
    infra = []
    if spec_bad:
        c, sm, g, m = spec_bad[0]
        report("correspondence-broken", c, "the reference interpreter (Spec/Exec.v) and the byte-code model disagree in %d case(s): %s" % (len(spec_bad), "; ".join(sm[:3])),
               g, m, no_input=True, theorem="C02 block_compile_correct (model vs reference semantics)")
    if not st["harness"]:
        infra.append("harness does not build from /repo: " + st["log"].get("harness", "")[-500:])
    if lines and st["harness"] and gocrash:
        infra.append("implementation harness crashed/timed out on shard(s): %s" % gocrash[:2])
    if lines and not st["driver"]:
        infra.append("model does not build/extract (coq or ocaml): " + (st["log"].get("extract", "") + st["log"].get("driver", ""))[-600:])
    if lines and st["driver"] and mcrash:
        infra.append("model driver crashed on shard(s): %s" % mcrash[:2])
    if not ps["ok"]:
        infra.append("theorems of %s no longer check (%s)" % (ps["file"], st["log"].get("coq", "")[-800:]))
    if infra and not found_input:
        report("proof-broken" if not ps["ok"] else "correspondence-broken", None, "; ".join(infra),
               no_input=True, theorem=ps["file"] if not ps["ok"] else "correspondence harness")
    for kl in known_lines:
        print(kl, flush=True)

    # ---- evidence
    samples = []
    by_size = sorted([c for c in cases if c.cid in go], key=lambda c: len(c.line()))
    if by_size:
        for c in (by_size[0], by_size[len(by_size) // 2], by_size[-1]):
            d = c.describe()
            d["implementation"] = {k: (v if len(v) < 400 else v[:400] + "...") for k, v in go.get(c.cid, {}).items() if k != "id"}
            for k in list(d):
                if isinstance(d[k], str) and len(d[k]) > 600:
                    d[k] = d[k][:600] + "..."
            samples.append(d)
    cov = dict(
        obligations=ps["obligations"], discharged=ps["discharged"],
        checker_cmd="cd coq && coq_makefile -f _CoqProject -o Makefile && make -j16  (coqc 8.16.1; Properties/%s.vo and all it depends on)" % prop.id,
        trusted_base=vlib.TRUSTED_BASE + [vlib.stdlib_axioms(ps["assumptions"])], theorems=ps["theorems"], assumptions=ps["assumptions"],
        evaluations=n_eval, distinct_nontrivial=len(distinct), rule=prop.rule, samples=samples,
        traces_validated_against_impl=n_eval - dropped, model_dropped=dropped,
        disagreements=len(disagreements), oracle_violations=len(oracle_viol),
        reference_interpreter_runs=spec_checked, reference_interpreter_mismatches=len(spec_bad),
        streams={k: dict(cases=v[0], distinct_nontrivial=v[1]) for k, v in streams.items()},
        known_findings_hit=known_lines, build=dict((k, st[k]) for k in ("harness", "tables", "coq_make_rc", "extract", "driver")),
        exhaustive=False)
    cov.update(extra_info)
    vlib.write_evidence(prop.id, tier, seed, time.time() - t0, cov, len(violations),
                        assumptions=["see coverage.trusted_base", "Print Assumptions: " + (ps["assumptions"] or "n/a")])
    log("%s %s: %d cases, %d distinct non-trivial, %d dropped by model, %d disagreements, %d oracle violations, proofs %d/%d, %.1fs" %
        (prop.id, tier, n_eval, len(distinct), dropped, len(disagreements), len(oracle_viol), ps["discharged"], ps["obligations"], time.time() - t0))
    return 1 if violations else 0

def main(argv):
    if len(argv) < 2:
        print("usage: check <Cxx> [--tier quick|thorough] | setup | replay <file>")
        return 2
    cmd = argv[1]
    tier = os.environ.get("VERIF_TIER", "quick")
    if "--tier" in argv:
        tier = argv[argv.index("--tier") + 1]
    seed = int(os.environ.get("VERIF_SEED", "1") or 1)
    if cmd == "setup":
        st = vlib.build(need_cli=True)
        bad = vlib.forbidden_tokens()
        if bad:
            print("forbidden tokens:", bad)
        # every CLAIMED property's theorem file must check (others may be work in progress)
        claimed = json.load(open(os.path.join(vlib.ROOT, "tools", "claimed.json")))
        broken = [p for p in sorted(claimed) if not vlib.vo_ok("Properties/%s.v" % p)]
        if broken:
            print("theorem files of claimed properties that do not check:", broken)
        ok = st["harness"] and st["driver"] and not broken and not bad
        if not ok:
            for k, v in st["log"].items():
                print("----", k); print(v)
        return 0 if ok else 1
    if cmd == "coqchk":
        # independent re-check of every compiled property file and all it depends on
        st = vlib.build()
        mods = sorted("EF.Properties." + f[:-2] for f in os.listdir(os.path.join(vlib.COQ, "Properties")) if f.endswith(".v"))
        p = vlib.sh("timeout 7000 coqchk -silent -o -Q . EF " + " ".join(mods) + " 2>&1", cwd=vlib.COQ, timeout=7200)
        os.makedirs(os.path.join(vlib.ROOT, "notes"), exist_ok=True)
        open(os.path.join(vlib.ROOT, "notes", "coqchk.txt"), "w").write("$ coqchk -silent -o -Q . EF %s\nexit status %d\n\n%s" % (" ".join(mods), p.returncode, p.stdout))
        print(p.stdout[-3000:])
        return 0 if p.returncode == 0 else 1
    if cmd == "replay":
        obj = json.load(open(argv[2]))
        mod = importlib.import_module("props." + obj["property"].lower())
        prop = mod.PROP
        st = vlib.build(need_cli=prop.need_cli)
        if not obj.get("case_line"):
            print("replay: no concrete input recorded:", obj.get("what"))
            return 1
        line = obj["case_line"]
        go, _ = vlib.run_go([line], tag="replay-go")
        model, _ = vlib.run_model([line], tag="replay-model")
        print(json.dumps(dict(implementation=go, model=model), indent=1))
        return 0
    mod = importlib.import_module("props." + cmd.lower())
    return run_check(mod.PROP, tier, seed)

#!/usr/bin/env python3
"""Regenerates MANIFEST.json from the table below (kept valid at all times)."""
import json, os, subprocess
ROOT = os.path.dirname(os.path.dirname(os.path.abspath(__file__)))
props = [json.loads(l) for l in open(os.path.join(ROOT, "properties.jsonl"))]
CLAIMED = json.load(open(os.path.join(ROOT, "tools", "claimed.json")))
hooks_commits = subprocess.run("git -C /repo log --format=%h --grep='^verif hooks'", shell=True, capture_output=True, text=True).stdout.split()
m = {"version": 1,
     "setup_cmd": "./check setup",
     "hooks": {"guard": "verif",
               "enable": "go build -tags verif (the harness module in /verif/harness replaces github.com/skx/evalfilter/v2 => /repo)",
               "baseline_off_cmd": "cd /repo && GOFLAGS=-mod=mod GOPROXY=off GOSUMDB=off GOTOOLCHAIN=local go test -vet=off -count=1 ./...",
               "source_commits": hooks_commits, "add_only": True},
     "engines": [{"name": "coq-model", "path": "coq/", "serves_properties": sorted(CLAIMED),
                  "kind_free_text": "Coq 8.16.1 development: executable Gallina model of evalfilter (Model/), reference definitions (Spec/), proofs (Proofs/), property theorems (Properties/); tables regenerated from the code (Gen/); model extracted to OCaml and run against the Go implementation by the harness (correspondence check)"}],
     "checks": [], "not_applicable": []}
for p in props:
    pid = p["id"]
    if pid in CLAIMED:
        c = CLAIMED[pid]
        m["checks"].append({
            "property_id": pid,
            "quick_cmd": "./check %s --tier quick" % pid,
            "thorough_cmd": "./check %s --tier thorough" % pid,
            "evidence_file": "evidence/%s.json" % pid,
            "replay_cmd_template": "./check replay {path}",
            "engine": "coq-model",
            "level_claimed": {"category": "proof", "text": c["text"], "design_ref": c.get("design_ref", "DESIGN.md section 6, " + pid)},
            "level_note": c["note"],
            "technique": c.get("technique", "machine-checked proof in Coq over an executable model + differential correspondence check (extracted model vs Go)")})
    else:
        m["not_applicable"].append({"property_id": pid, "reason": "check not built yet in this session (work in progress; the property is meant to be claimed)"})
json.dump(m, open(os.path.join(ROOT, "MANIFEST.json"), "w"), indent=1)
print("claimed:", sorted(CLAIMED))

#!/usr/bin/env python3
"""Confirm a seeded change (suite passes with it; demo fails with it and passes without it), run the
given checks against a patched scratch copy, and store everything under /verif/seeded/<name>/.
usage: seedverify.py <name> <dir with patch.diff demo_test.go NOTES.md PROPERTY.txt> <breaks Cxx> <checks...> [--slot N]"""
import sys, os, subprocess, shutil, json
args = [a for a in sys.argv[1:] if not a.startswith("--")]
slot = sys.argv[sys.argv.index("--slot") + 1] if "--slot" in sys.argv else "2"
if "--slot" in sys.argv:
    args.remove(slot)
name, src, breaks, checks = args[0], args[1], args[2], args[3:]
env = dict(os.environ, GOFLAGS="-mod=mod", GOPROXY="off", GOSUMDB="off", GOTOOLCHAIN="local")
base = "/tmp/sv%s" % slot
def fresh():
    subprocess.run(["rsync", "-a", "--delete", "--exclude", ".git", "/repo/", base + "/repo/"], check=True)
os.makedirs(base, exist_ok=True)
def sh(cmd, cwd):
    p = subprocess.run(cmd, shell=True, cwd=cwd, env=env, capture_output=True, text=True, errors="replace", timeout=1200)
    return p.returncode, (p.stdout + p.stderr)
report = {"name": name, "breaks": breaks}
# 1. clean tree: demo passes
fresh()
shutil.copy(os.path.join(src, "demo_test.go"), base + "/repo/demo_test.go")
rc, out = sh("go test -vet=off -count=1 -run TestDemo .", base + "/repo")
report["demo_on_clean_tree"] = "PASS" if rc == 0 else "FAIL"
# 2. patched tree: suite passes, demo fails
fresh()
rc, out = sh("patch -p1 --no-backup-if-mismatch -i %s" % os.path.abspath(os.path.join(src, "patch.diff")), base + "/repo")
report["patch_applies"] = rc == 0
rc, out = sh("go build ./... && go build -tags verif ./... && go test -vet=off -count=1 ./... 2>&1 | grep -v '^ok\\|no test files'", base + "/repo")
report["suite_with_change"] = "PASS" if not out.strip() else "FAIL: " + out[-300:]
shutil.copy(os.path.join(src, "demo_test.go"), base + "/repo/demo_test.go")
rc, out = sh("go test -vet=off -count=1 -run TestDemo .", base + "/repo")
report["demo_with_change"] = "FAIL" if rc != 0 else "PASS"
os.remove(base + "/repo/demo_test.go")
print(json.dumps(report))
ok = report["demo_on_clean_tree"] == "PASS" and report["demo_with_change"] == "FAIL" and report["suite_with_change"] == "PASS" and report["patch_applies"]
report["confirmed"] = ok
# 3. the checks
p = subprocess.run([sys.executable, "/verif/tools/seedtest.py", os.path.join(src, "patch.diff")] + checks + ["--slot", slot], capture_output=True, text=True, timeout=7200)
lines = [l for l in p.stdout.splitlines() if not l.startswith("WARNING")]
print("\n".join(lines))
res = {}
for l in lines:
    parts = l.split()
    if parts and parts[0] in checks and len(parts) > 2 and parts[2].startswith("VIOLATIONS="):
        res[parts[0]] = dict(violations=int(parts[2].split("=")[1]), line=l[:400])
report["checks_run"] = res
report["caught_by"] = sorted(k for k, v in res.items() if v["violations"] > 0)
dst = "/verif/seeded/%s" % name
os.makedirs(dst, exist_ok=True)
for f in ("patch.diff", "demo_test.go", "NOTES.md", "PROPERTY.txt"):
    if os.path.exists(os.path.join(src, f)):
        shutil.copy(os.path.join(src, f), os.path.join(dst, f))
notes = open(os.path.join(src, "NOTES.md")).read() if os.path.exists(os.path.join(src, "NOTES.md")) else ""
meta = dict(property_broken=breaks, source="independent sub-agent given only the property text and a scratch worktree",
            needs_to_manifest=notes[:1500], confirmation=report,
            what_was_run="tools/seedverify.py: demo on the unchanged tree (must pass), patch applied to a scratch copy, pinned suite (must pass), demo (must fail), then ./check for %s with VERIF_REPO pointing at the patched copy" % ", ".join(checks))
json.dump(meta, open(os.path.join(dst, "meta.json"), "w"), indent=1)
print("CONFIRMED" if ok else "NOT-CONFIRMED", "caught by", report["caught_by"])

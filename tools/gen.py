"""Grammar-directed generator of mostly valid, mostly well-typed evalfilter
scripts, host objects and API histories.  Every random choice comes from the
`rng` handed in (one PRNG per check run)."""
import struct
from vlib import hx

INT_LITS = [0, 1, 2, 3, 5, 7, 10, 42, 100, 255, 256, 65534, 65535, 65536, 70000, 9223372036854775807]
FLOAT_LITS = ["0.5", "1.5", "2.25", "3.0", "10.75", "0.1", "100.125", "0.0", "65535.5"]
STR_LITS = ["", "a", "b", "abc", "Hello World", "10", "9", "héllo", "line1\\nline2", " pad ", "ABC", "a,b,c", "x y z", "日本"]
RE_LITS = ["/a/", "/^a/", "/b$/", "/a.c/", "/[0-9]+/", "/hello/i", "/^line2$/", "/x|y/", "/(/", "/\\d/"]

def fbits(f):
    return "%016x" % struct.unpack(">Q", struct.pack(">d", f))[0]

# ---------------------------------------------------------------- host objects
def enc_host_value(v):
    """python value -> hostval encoding"""
    if v is None:
        return "N"
    if isinstance(v, bool):
        return "B1" if v else "B0"
    if isinstance(v, int):
        return "I0.%d" % v
    if isinstance(v, float):
        return "F64.%s" % fbits(v)
    if isinstance(v, str):
        return "S" + hx(v)
    if isinstance(v, tuple) and v[0] == "time":
        return "T%d" % v[1]
    if isinstance(v, tuple) and v[0] == "raw":
        return v[1]
    if isinstance(v, list):
        return "Li(" + ",".join(enc_host_value(x) for x in v) + ")"
    if isinstance(v, dict):
        return "M(" + ",".join(hx(k) + "=" + enc_host_value(x) for k, x in v.items()) + ")"
    raise ValueError(v)

def enc_struct(fields):
    return "R(" + ",".join(hx(k) + "=" + enc_host_value(v) for k, v in fields) + ")"

def enc_value(v):
    """python value -> script value encoding (for setvar / expectations)"""
    if v is None:
        return "n"
    if isinstance(v, bool):
        return "b1" if v else "b0"
    if isinstance(v, int):
        return "i%d" % v
    if isinstance(v, float):
        return "f" + fbits(v)
    if isinstance(v, str):
        return "s" + hx(v)
    if isinstance(v, list):
        return "a(" + ",".join(enc_value(x) for x in v) + ")"
    if isinstance(v, dict):
        return "h(" + ",".join(sorted(enc_value(k) + "=" + enc_value(x) for k, x in v.items())) + ")"
    raise ValueError(v)

FIELD_TYPES = [("Name", "str"), ("Count", "int"), ("Ratio", "float"), ("Active", "bool"),
               ("Tags", "arr"), ("Nums", "arr"), ("Meta", "hash"), ("When", "int")]

def rand_object(rng):
    return [("Name", rng.choice(["bob", "Alice", "", "héllo", "line1\nline2", "10"])),
            ("Count", rng.choice([0, 1, 5, 42, -3, 65535, 70000])),
            ("Ratio", rng.choice([0.0, 0.5, 1.5, -2.25, 100.125])),
            ("Active", rng.random() < 0.5),
            ("Tags", rng.choice([[], ["a"], ["b", "a", "c"], ["x", "Hello World", "10", "9"]])),
            ("Nums", rng.choice([[], [1], [3, 1, 2], [10, 9, 100]])),
            ("Meta", rng.choice([{}, {"k": "v"}, {"a": 1.0, "b": "two", "c": True, "d": None}])),
            ("When", ("time", rng.choice([0, 86399, 951782400, 1700000000, -1])))]

# ---------------------------------------------------------------- expressions
class Gen:
    def __init__(self, rng, max_depth=3, illtyped=0.08, use_fields=True, use_calls=True, use_sqrt=False,
                 use_regex=True, use_ternary=True, host_fns=("t",)):
        self.rng = rng
        self.max_depth = max_depth
        self.illtyped = illtyped
        self.use_fields = use_fields
        self.use_calls = use_calls
        self.use_sqrt = use_sqrt
        self.use_regex = use_regex
        self.use_ternary = use_ternary
        self.host_fns = host_fns
        self.vars = {}            # name -> type
        self.funcs = {}           # user function name -> arity
        self.counter = 0
        self.in_ternary = False
        self.in_function = False
        self.locals = {}

    TYPES = ["int", "float", "str", "bool", "arr", "hash"]

    def fresh(self, prefix):
        self.counter += 1
        return "%s%d" % (prefix, self.counter)

    def names_of(self, t):
        out = [n for n, ty in self.vars.items() if ty == t] + [n for n, ty in self.locals.items() if ty == t]
        if self.use_fields:
            out += [n for n, ty in FIELD_TYPES if ty == t]
        return out

    def atom(self, t):
        r = self.rng
        names = self.names_of(t)
        if names and r.random() < 0.45:
            n = r.choice(names)
            return ("$" + n) if r.random() < 0.03 else n
        if t == "int":
            return str(r.choice(INT_LITS if r.random() < 0.5 else [0, 1, 2, 3, 5, 10]))
        if t == "float":
            return r.choice(FLOAT_LITS)
        if t == "str":
            return '"%s"' % r.choice(STR_LITS)
        if t == "bool":
            return r.choice(["true", "false"])
        if t == "arr":
            k = r.randint(0, 4)
            et = r.choice(["int", "str", "int", "mixed"])
            els = [self.atom(r.choice(["int", "str", "float", "bool"]) if et == "mixed" else et) for _ in range(k)]
            return "[" + ", ".join(els) + "]"
        if t == "hash":
            k = r.randint(0, 3)
            keys = r.sample(['"a"', '"b"', '"k"', "1", "2", "1.5", '"1"'], k)
            return "{" + ", ".join("%s: %s" % (kk, self.atom(r.choice(["int", "str", "bool"]))) for kk in keys) + "}"
        if t == "regexp":
            return r.choice(RE_LITS)
        if t == "null":
            return "nosuchname"
        return "0"

    def expr(self, t, depth=None):
        r = self.rng
        if depth is None:
            depth = self.max_depth
        if r.random() < self.illtyped:
            t = r.choice(self.TYPES + ["null"])
        if depth <= 0 or r.random() < 0.25:
            return self.atom(t)
        d = depth - 1
        num = lambda: r.choice(["int", "int", "float"])
        if self.use_ternary and not self.in_ternary and r.random() < 0.07:
            self.in_ternary = True
            try:
                s = "(%s ? %s : %s)" % (self.expr("bool", d), self.expr(t, d), self.expr(t, d))
            finally:
                self.in_ternary = False
            return s
        if t == "int":
            k = r.random()
            if k < 0.55:
                op = r.choice(["+", "-", "*", "/", "%", "+", "-", "*", "**"])
                rhs = self.expr("int", d)
                if op == "**":
                    rhs = str(r.choice([0, 1, 2, 3]))
                return "(%s %s %s)" % (self.expr("int", d), op, rhs)
            if k < 0.62:
                return "-%s" % self.atom("int")
            if k < 0.75 and self.use_calls:
                return r.choice(["len(%s)" % self.expr(r.choice(["str", "arr", "hash"]), d),
                                 "int(%s)" % self.expr(r.choice(["str", "int"]), d),
                                 "min(%s, %s)" % (self.expr("int", d), self.expr("int", d)),
                                 "max(%s, %s)" % (self.expr("int", d), self.expr("int", d))])
            if k < 0.85:
                return "%s[%s]" % (self.expr("arr", d), self.expr("int", 0))
            return self.atom("int")
        if t == "float":
            k = r.random()
            if k < 0.6:
                op = r.choice(["+", "-", "*", "/"])
                a, b = (self.expr("float", d), self.expr(num(), d)) if r.random() < 0.5 else (self.expr(num(), d), self.expr("float", d))
                return "(%s %s %s)" % (a, op, b)
            if k < 0.7 and self.use_sqrt:
                return "√%s" % self.atom(r.choice(["int", "float"]))
            if k < 0.8 and self.use_calls:
                return "float(%s)" % self.expr(r.choice(["str", "int", "float"]), d)
            return self.atom("float")
        if t == "str":
            k = r.random()
            if k < 0.4:
                return "(%s + %s)" % (self.expr("str", d), self.expr("str", d))
            if k < 0.75 and self.use_calls:
                return r.choice(["string(%s)" % self.expr(r.choice(self.TYPES), d),
                                 "lower(%s)" % self.expr("str", d), "upper(%s)" % self.expr("str", d),
                                 "trim(%s)" % self.expr("str", d), "type(%s)" % self.expr(r.choice(self.TYPES + ["null"]), d),
                                 "join(%s, %s)" % (self.expr("arr", d), self.atom("str"))])
            if k < 0.85:
                return "%s[%s]" % (self.expr("str", d), self.expr("int", 0))
            return self.atom("str")
        if t == "bool":
            k = r.random()
            if k < 0.35:
                ty = num() if r.random() < 0.7 else "str"
                ty2 = num() if ty != "str" else "str"
                return "(%s %s %s)" % (self.expr(ty, d), r.choice(["<", "<=", ">", ">=", "==", "!="]), self.expr(ty2, d))
            if k < 0.5:
                ta, tb = (r.choice(self.TYPES), r.choice(self.TYPES)) if r.random() < 0.4 else ("bool", "bool")
                return "(%s %s %s)" % (self.expr(ta, d), r.choice(["&&", "||"]), self.expr(tb, d))
            if k < 0.58:
                return "!%s" % self.expr(r.choice(["bool", "bool", "null", "int"]), d)
            if k < 0.68 and self.use_regex:
                return "(%s %s %s)" % (self.expr("str", d), r.choice(["~=", "!~"]), self.atom("regexp"))
            if k < 0.78:
                if r.random() < 0.5:
                    return "(%s in %s)" % (self.expr(r.choice(["int", "str"]), d), self.expr("arr", d))
                return "(%s in %s)" % (self.expr("str", d), self.expr("str", d))
            if k < 0.86 and self.use_calls:
                return r.choice(["between(%s, %s, %s)" % (self.expr(num(), d), self.expr(num(), d), self.expr(num(), d)),
                                 "match(%s, %s)" % (self.expr("str", d), self.atom("regexp") if self.use_regex else '"a"')])
            if k < 0.9:
                return "(%s == %s)" % (self.expr("bool", d), self.expr("bool", d))
            return self.atom("bool")
        if t == "arr":
            k = r.random()
            if k < 0.2:
                a = r.choice([0, 1, 2, 5])
                return "(%d..%d)" % (a, a + r.choice([0, 1, 3, 6])) if r.random() < 0.8 else "(%s..%s)" % (r.choice(["0", "1", "len(Tags)", "3"]), r.choice(["2", "5", "len(Name)", "0"]))
            if k < 0.55 and self.use_calls:
                return r.choice(["sort(%s)" % self.expr("arr", d), "reverse(%s)" % self.expr("arr", d),
                                 "split(%s, %s)" % (self.expr("str", d), self.atom("str")),
                                 "keys(%s)" % self.expr("hash", d),
                                 "sort(%s, %s)" % (self.expr("arr", d), self.atom("bool"))])
            return self.atom("arr")
        if t == "hash":
            return self.atom("hash")
        return self.atom(t)

    # ------------------------------------------------------------ statements
    def assign(self, depth, allow_new=True):
        r = self.rng
        t = r.choice(["int", "int", "float", "str", "bool", "arr", "hash"])
        existing = [n for n, ty in self.vars.items() if ty == t and not n.startswith("w")]
        if existing and (r.random() < 0.5 or not allow_new):
            name = r.choice(existing)
        else:
            name = r.choice(["a", "b", "c", "d", "x", "y", "z"]) if r.random() < 0.7 else self.fresh("v")
            if name in self.vars and self.vars[name] != t and (name.startswith("w") or name.startswith("i")):
                name = self.fresh("v")
        e = self.expr(t, depth)
        if self.in_function and name in self.locals:
            self.locals[name] = t
        else:
            self.vars[name] = t
        return "%s = %s;" % (name, e)

    def mutate(self):
        r = self.rng
        nums = [n for n, ty in list(self.vars.items()) + list(self.locals.items()) if ty in ("int", "float") and not n.startswith("w")]
        if not nums:
            return self.assign(1)
        n = r.choice(nums)
        k = r.random()
        if k < 0.4:
            return "%s%s;" % (n, r.choice(["++", "--"]))
        return "%s %s %s;" % (n, r.choice(["+=", "-=", "*=", "/="]), self.atom("int") if r.random() < 0.8 else self.atom("float"))

    def host_call(self, depth):
        """statement-level trace call: `t` is registered as a void host function"""
        r = self.rng
        if not self.host_fns:
            return self.assign(depth)
        args = [self.expr(r.choice(self.TYPES), min(depth, 1)) for _ in range(r.randint(0, 3))]
        return "%s(%s);" % (r.choice(self.host_fns), ", ".join(args))

    def block(self, depth, n=None):
        r = self.rng
        n = r.randint(1, 3) if n is None else n
        return "{ " + " ".join(self.stmt(depth) for _ in range(n)) + " }"

    def stmt(self, depth):
        r = self.rng
        k = r.random()
        if depth <= 0:
            k = k * 0.5
        if k < 0.25:
            return self.assign(min(depth, 2) + 1)
        if k < 0.35:
            return self.mutate()
        if k < 0.47:
            return self.host_call(depth)
        if k < 0.5:
            return "return %s;" % self.expr(r.choice(self.TYPES), 1) if r.random() < 0.3 else self.assign(1)
        d = depth - 1
        if k < 0.65:
            s = "if (%s) %s" % (self.expr("bool", 2), self.block(d))
            while r.random() < 0.3:
                s += " else if (%s) %s" % (self.expr("bool", 1), self.block(d))
            if r.random() < 0.5:
                s += " else %s" % self.block(d)
            return s
        if k < 0.73:
            w = self.fresh("w")
            self.vars[w] = "int"
            n = r.randint(0, 4)
            kw = r.choice(["while", "for"])
            return "%s = 0; %s (%s < %d) { %s %s++; }" % (w, kw, w, n, " ".join(self.stmt(d) for _ in range(r.randint(0, 2))), w)
        if k < 0.85:
            it = r.choice(["arr", "arr", "str", "hash", "range"])
            src = "%d..%d" % (r.choice([0, 1, 3]), r.choice([3, 4, 6])) if it == "range" else self.expr(it, 1)
            v = self.fresh("e")
            elt = {"arr": "int", "str": "str", "hash": "int", "range": "int"}[it]
            if r.random() < 0.5:
                i = self.fresh("i")
                head = "foreach %s, %s in %s" % (i, v, src)
                names = {i: "int" if it != "hash" else "str", v: elt}
            else:
                head = "foreach %s in %s" % (v, src)
                names = {v: elt}
            saved = dict(self.locals)
            self.locals.update(names)
            body = self.block(d)
            self.locals = saved
            return "%s %s" % (head, body)
        if k < 0.93:
            t = r.choice(["int", "str"])
            subj = self.expr(t, 1)
            arms = []
            for _ in range(r.randint(1, 3)):
                vals = [self.atom(t) if r.random() < 0.7 else (self.atom("regexp") if t == "str" and self.use_regex else self.expr(t, 1))
                        for _ in range(r.randint(1, 2))]
                arms.append("case %s %s" % (", ".join(vals), self.block(d, 1)))
            if r.random() < 0.6:
                arms.insert(r.randint(0, len(arms)), "default %s" % self.block(d, 1))
            return "switch (%s) { %s }" % (subj, " ".join(arms))
        if self.funcs and self.use_calls:
            f = r.choice(sorted(self.funcs))
            args = [self.expr(r.choice(["int", "str"]), 1) for _ in range(self.funcs[f])]
            n = r.choice(["a", "b", "x", "r"])
            self.vars[n] = "int"
            return "%s = %s(%s);" % (n, f, ", ".join(args))
        return self.assign(depth)

    def function(self, name, depth):
        r = self.rng
        params = r.sample(["a", "b", "x", "n", "p"], r.randint(0, 3))
        saved_locals, saved_in = dict(self.locals), self.in_function
        self.in_function = True
        self.locals = {p: r.choice(["int", "str"]) for p in params}
        body = []
        for _ in range(r.randint(0, 2)):
            if r.random() < 0.4:
                l = r.choice(["a", "b", "x", "l1"])
                self.locals[l] = "null"
                body.append("local %s;" % l)
                t = r.choice(["int", "str"])
                body.append("%s = %s;" % (l, self.expr(t, 1)))
                self.locals[l] = t
        for _ in range(r.randint(1, 3)):
            body.append(self.stmt(depth))
        if r.random() < 0.8:
            body.append("return %s;" % self.expr(r.choice(["int", "str", "bool"]), 2))
        self.locals, self.in_function = saved_locals, saved_in
        self.funcs[name] = len(params)
        return "function %s(%s) { %s }" % (name, ", ".join(params), " ".join(body))

    def program(self, nstmts=None, nfuncs=None, depth=2):
        r = self.rng
        nstmts = r.randint(1, 8) if nstmts is None else nstmts
        nfuncs = (r.randint(0, 2) if r.random() < 0.4 else 0) if nfuncs is None else nfuncs
        parts = []
        late = []
        for i in range(nfuncs):
            f = self.function("f%d" % i, depth - 1)
            (late if r.random() < 0.3 else parts).append(f)
        for _ in range(nstmts):
            parts.append(self.stmt(depth))
        if r.random() < 0.7:
            parts.append("return %s;" % self.expr(r.choice(self.TYPES), 2))
        parts += late
        sep = r.choice([" ", "\n", " "])
        return sep.join(parts)


def struct_case(rng, script, extra_ops=None, objs=None, host_fns=("t",)):
    """fields of a standard run case"""
    if objs is None:
        objs = [enc_struct(rand_object(rng))]
    ops = ["addfn:%s:void" % hx(f) for f in host_fns] + ["addfn:%s:arg0" % hx("u")]
    ops += extra_ops if extra_ops is not None else ["prepare:opt", "exec:0"]
    return {"script": hx(script), "objs": ";".join(objs), "ops": ";".join(ops)}

# ---------------------------------------------------------------- feature-focused random programs (model-judged)
def _lit(v):
    if v is None:
        return "null_"           # an unset variable: null
    if isinstance(v, bool):
        return "true" if v else "false"
    if isinstance(v, int):
        return str(v) if v >= 0 else "(0 - %d)" % -v
    if isinstance(v, float):
        s = repr(abs(v))
        s = s if "e" not in s and "inf" not in s and "nan" not in s else "1.5"
        return s if v >= 0 else "(0 - %s)" % s
    if isinstance(v, str):
        return '"' + v.replace("\\", "\\\\").replace('"', '\\"').replace("\n", "\\n") + '"'
    if isinstance(v, list):
        return "[" + ", ".join(_lit(x) for x in v) + "]"
    if isinstance(v, dict):
        return "{" + ", ".join("%s: %s" % (_lit(k), _lit(x)) for k, x in v.items()) + "}"
    raise ValueError(v)

SCALARS = [0, 1, 2, 7, -1, -3, 10, 65535, 65536, 0.5, 1.5, 1.25, 2.5, -0.5, 10.0, "", "a", "b", "ab", "1", "1.5", "héllo", "A", "10", "9", True, False, None]
KEYS = [0, 1, 2, 10, -1, 0.5, 1.5, 1.25, 2.5, "a", "b", "1", "1.5", "", "ab"]

def rand_scalar(rng):
    return rng.choice(SCALARS)

def rand_array(rng, depth=1):
    return [rand_scalar(rng) if depth == 0 or rng.random() < 0.8 else rand_array(rng, depth - 1) for _ in range(rng.choice([0, 1, 2, 3, 3, 5]))]

def rand_hash(rng):
    return {rng.choice(KEYS): (rand_scalar(rng) if rng.random() < 0.85 else rand_array(rng, 0)) for _ in range(rng.choice([0, 1, 2, 3, 4]))}

def container_program(rng):
    """containers built from literals, then indexed / searched / measured / iterated; results collected in r"""
    st = ["arr = %s;" % _lit(rand_array(rng)), "h = %s;" % _lit(rand_hash(rng)), "s = %s;" % _lit(rng.choice(["", "a", "abc", "héllo", "日本語", "a b"])),
          "rg = %d..%d;" % (rng.choice([0, 1, 3]), rng.choice([3, 4, 6])), "r = []; n = 0;"]
    C = ["arr", "h", "s", "rg", "Tags", "Nums", "Meta", "Name"]
    for _ in range(rng.randint(2, 7)):
        c = rng.choice(C)
        k = _lit(rng.choice(KEYS + [3, 4, 5, -2, 99]))
        st.append(rng.choice([
            "r = [r, %s[%s]];" % (c, k), "r = [r, len(%s)];" % c, "r = [r, (%s in %s)];" % (_lit(rand_scalar(rng)), c),
            "foreach v in %s { n++; r = [r, v]; }" % c, "foreach k, v in %s { n++; r = [r, k, v]; }" % c,
            "foreach a in %s { foreach b in %s { n++; } }" % (c, rng.choice(C)), "r = [r, keys(%s)];" % c, "r = [r, string(%s)];" % c,
            "r = [r, type(%s[%s])];" % (c, k), "foreach k, v in %s { if (k == %s) { r = [r, v]; } }" % (c, k), "r = [r, sort(%s)];" % c,
            "r = [r, reverse(%s)];" % c, "foreach v in %s { t(v); }" % c, "x = %s; r = [r, x[%s], len(x)];" % (c, k), "r = [r, %s == %s];" % (c, rng.choice(C)),
            "h2 = {%s: %s, %s: %s}; r = [r, h2[%s], len(h2), keys(h2)];" % (k, _lit(rand_scalar(rng)), _lit(rng.choice(KEYS)), _lit(rand_scalar(rng)), k),
            "r = [r, join(%s, \",\")];" % c, "r = [r, split(%s, \"\")];" % c,
        ]))
    st.append("return [r, n];")
    return " ".join(st)

BUILTIN_NAMES = ["len", "lower", "upper", "trim", "string", "int", "float", "type", "min", "max", "between", "sort", "reverse", "join", "split", "keys",
                 "match", "replace", "hour", "minute", "seconds", "day", "month", "year", "weekday", "now", "time", "sprintf", "getenv", "panic_"]

def builtin_program(rng):
    st = ["r = [];"]
    for _ in range(rng.randint(1, 5)):
        f = rng.choice(BUILTIN_NAMES)
        if f in ("now", "time", "getenv", "panic_", "sprintf"):
            f = rng.choice(["len", "int", "float", "min", "max", "between", "sort", "string", "type"])
        nargs = rng.choice([0, 1, 1, 1, 2, 2, 3, 4])
        args = []
        for _ in range(nargs):
            x = rng.random()
            args.append(_lit(rand_scalar(rng)) if x < 0.5 else _lit(rand_array(rng, 0)) if x < 0.65 else _lit(rand_hash(rng)) if x < 0.72
                        else rng.choice(["Name", "Count", "Ratio", "Active", "Tags", "Nums", "Meta", "When", "nosuch"]) if x < 0.9
                        else rng.choice(["/a/", "/^b/i", "\"[0-9]+\"", "\"%d\"", "\",\""]))
        st.append("r = [r, %s(%s)];" % (f, ", ".join(args)))
    st.append("return r;")
    return " ".join(st)

def truth_program(rng):
    """values of every type flowing through conditions, logic operators and negation"""
    vals = [_lit(rand_scalar(rng)) if rng.random() < 0.6 else _lit(rand_array(rng, 0)) if rng.random() < 0.5 else _lit(rand_hash(rng)) for _ in range(3)]
    vals += ["Name", "Count", "Active", "Tags", "Meta", "nosuch", "u(%s)" % _lit(rand_scalar(rng))]
    def cond(d):
        x = rng.random()
        a = rng.choice(vals)
        if d == 0 or x < 0.3:
            return a
        if x < 0.45:
            return "!" + cond(d - 1)
        if x < 0.6:
            return "(%s && %s)" % (cond(d - 1), cond(d - 1))
        if x < 0.75:
            return "(%s || %s)" % (cond(d - 1), cond(d - 1))
        if x < 0.85:
            return "(%s == %s)" % (a, rng.choice(vals))
        if x < 0.92:
            return "(%s ? %s : %s)" % (cond(0), rng.choice(vals), rng.choice(vals))
        return "(%s < %s)" % (a, rng.choice(vals))
    st = ["r = [];"]
    for _ in range(rng.randint(1, 4)):
        c = cond(rng.randint(0, 3))
        st.append(rng.choice(["if (%s) { r = [r, 1]; } else { r = [r, 0]; }", "r = [r, %s ? 1 : 0];", "w = 0; while (%s) { w++; if (w > 1) { return [r, w]; } }",
                              "r = [r, !%s];", "r = [r, %s];", "if (%s) { r = [r, 2]; }"]) % c)
    st.append(rng.choice(["return r;", "return %s;" % cond(2)]))
    return " ".join(st)

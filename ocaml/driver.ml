(* driver.ml - hand-written glue (trusted): reads a case file, runs the
   extracted model (Model), prints one canonical result line per case.
   Same line formats as the Go harness. *)
open Model
module String = Stdlib.String
module List = Stdlib.List
module Char = Stdlib.Char
type string = String.t

(* ---------- conversions between OCaml ints/strings and extracted N ------- *)
let rec pos_of_int (i : int) : positive =
  if i = 1 then XH
  else if i land 1 = 0 then XO (pos_of_int (i lsr 1))
  else XI (pos_of_int (i lsr 1))
let n_of_int (i : int) : n = if i = 0 then N0 else Npos (pos_of_int i)
let rec int_of_pos = function
  | XH -> 1
  | XO p -> 2 * int_of_pos p
  | XI p -> 2 * int_of_pos p + 1
let int_of_n = function N0 -> 0 | Npos p -> int_of_pos p

(* Go's []rune(string): invalid UTF-8 bytes each become U+FFFD *)
let decode_utf8 (s : string) : int list =
  let n = String.length s in
  let out = ref [] in
  let i = ref 0 in
  let cont k = k < n && (Char.code s.[k]) land 0xC0 = 0x80 in
  while !i < n do
    let c = Char.code s.[!i] in
    if c < 0x80 then (out := c :: !out; incr i)
    else if c >= 0xC2 && c <= 0xDF && cont (!i+1) then begin
      out := (((c land 0x1F) lsl 6) lor ((Char.code s.[!i+1]) land 0x3F)) :: !out; i := !i + 2 end
    else if c >= 0xE0 && c <= 0xEF && cont (!i+1) && cont (!i+2) then begin
      let c1 = Char.code s.[!i+1] in
      let v = ((c land 0x0F) lsl 12) lor ((c1 land 0x3F) lsl 6) lor ((Char.code s.[!i+2]) land 0x3F) in
      if v < 0x800 || (v >= 0xD800 && v <= 0xDFFF) then (out := 0xFFFD :: !out; incr i)
      else (out := v :: !out; i := !i + 3) end
    else if c >= 0xF0 && c <= 0xF4 && cont (!i+1) && cont (!i+2) && cont (!i+3) then begin
      let v = ((c land 0x07) lsl 18) lor (((Char.code s.[!i+1]) land 0x3F) lsl 12)
              lor (((Char.code s.[!i+2]) land 0x3F) lsl 6) lor ((Char.code s.[!i+3]) land 0x3F) in
      if v < 0x10000 || v > 0x10FFFF then (out := 0xFFFD :: !out; incr i)
      else (out := v :: !out; i := !i + 4) end
    else (out := 0xFFFD :: !out; incr i)
  done;
  List.rev !out

let encode_utf8 (l : int list) : string =
  let b = Buffer.create 64 in
  List.iter (fun c ->
    let c = if c > 0x10FFFF || (c >= 0xD800 && c <= 0xDFFF) then 0xFFFD else c in
    if c < 0x80 then Buffer.add_char b (Char.chr c)
    else if c < 0x800 then begin
      Buffer.add_char b (Char.chr (0xC0 lor (c lsr 6)));
      Buffer.add_char b (Char.chr (0x80 lor (c land 0x3F))) end
    else if c < 0x10000 then begin
      Buffer.add_char b (Char.chr (0xE0 lor (c lsr 12)));
      Buffer.add_char b (Char.chr (0x80 lor ((c lsr 6) land 0x3F)));
      Buffer.add_char b (Char.chr (0x80 lor (c land 0x3F))) end
    else begin
      Buffer.add_char b (Char.chr (0xF0 lor (c lsr 18)));
      Buffer.add_char b (Char.chr (0x80 lor ((c lsr 12) land 0x3F)));
      Buffer.add_char b (Char.chr (0x80 lor ((c lsr 6) land 0x3F)));
      Buffer.add_char b (Char.chr (0x80 lor (c land 0x3F))) end) l;
  Buffer.contents b

let str_of_string (s : string) : str = List.map n_of_int (decode_utf8 s)
let string_of_str (s : str) : string = encode_utf8 (List.map int_of_n s)

let unhex (h : string) : string =
  let n = String.length h / 2 in
  String.init n (fun i -> Char.chr (int_of_string ("0x" ^ String.sub h (2*i) 2)))
let hx (s : string) : string =
  let b = Buffer.create (2 * String.length s) in
  String.iter (fun c -> Buffer.add_string b (Printf.sprintf "%02x" (Char.code c))) s;
  Buffer.contents b
let hxs (s : str) : string = hx (string_of_str s)

let parse_line (line : string) : (string * string) list =
  List.filter_map (fun f ->
    match String.index_opt f '=' with
    | None -> None
    | Some i -> Some (String.sub f 0 i, String.sub f (i+1) (String.length f - i - 1)))
    (String.split_on_char '\t' line)
let field c k = try List.assoc k c with Not_found -> ""

(* ---------- case kinds ---------- *)
let lex_case c =
  let src = str_of_string (unhex (field c "script")) in
  match lex src with
  | None -> Printf.printf "id=%s\ttokens=FUEL\n" (field c "id")
  | Some ts ->
    let f t =
      let lit = match t.tty with TIllegal -> [] | _ -> t.tlit in
      hxs (tokty_name t.tty) ^ ":" ^ hxs lit in
    Printf.printf "id=%s\ttokens=%s\n" (field c "id") (String.concat "," (List.map f ts))

let run_case c =
  match field c "kind" with
  | "lex" -> lex_case c
  | k -> Printf.printf "id=%s\tunsupported=%s\n" (field c "id") k

let () =
  let path = Sys.argv.(1) in
  let ic = open_in_bin path in
  (try
    while true do
      let line = input_line ic in
      if String.length line > 0 && line.[0] <> '#' then run_case (parse_line line)
    done
  with End_of_file -> ());
  close_in ic

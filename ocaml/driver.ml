(* driver.ml - hand-written glue (trusted): reads a case file, runs the
   extracted model (Model), prints one canonical result line per case.
   Same line formats as the Go harness. *)
module BigZ = Z
open Model
module String = Stdlib.String
module List = Stdlib.List
module Char = Stdlib.Char
type string = String.t

(* ---------- conversions between OCaml ints/strings and extracted N ------- *)
let rec pos_of_int (i : int) : positive =
  if i = 1 then XH
  else if i land 1 = 0 then XO (pos_of_int (i lsr 1))
  else XI (pos_of_int (i lsr 1))
let n_of_int (i : int) : n = if i = 0 then N0 else Npos (pos_of_int i)
let rec int_of_pos = function
  | XH -> 1
  | XO p -> 2 * int_of_pos p
  | XI p -> 2 * int_of_pos p + 1
let int_of_n = function N0 -> 0 | Npos p -> int_of_pos p

(* Go's []rune(string): invalid UTF-8 bytes each become U+FFFD *)
let decode_utf8 (s : string) : int list =
  let n = String.length s in
  let out = ref [] in
  let i = ref 0 in
  let cont k = k < n && (Char.code s.[k]) land 0xC0 = 0x80 in
  while !i < n do
    let c = Char.code s.[!i] in
    if c < 0x80 then (out := c :: !out; incr i)
    else if c >= 0xC2 && c <= 0xDF && cont (!i+1) then begin
      out := (((c land 0x1F) lsl 6) lor ((Char.code s.[!i+1]) land 0x3F)) :: !out; i := !i + 2 end
    else if c >= 0xE0 && c <= 0xEF && cont (!i+1) && cont (!i+2) then begin
      let c1 = Char.code s.[!i+1] in
      let v = ((c land 0x0F) lsl 12) lor ((c1 land 0x3F) lsl 6) lor ((Char.code s.[!i+2]) land 0x3F) in
      if v < 0x800 || (v >= 0xD800 && v <= 0xDFFF) then (out := 0xFFFD :: !out; incr i)
      else (out := v :: !out; i := !i + 3) end
    else if c >= 0xF0 && c <= 0xF4 && cont (!i+1) && cont (!i+2) && cont (!i+3) then begin
      let v = ((c land 0x07) lsl 18) lor (((Char.code s.[!i+1]) land 0x3F) lsl 12)
              lor (((Char.code s.[!i+2]) land 0x3F) lsl 6) lor ((Char.code s.[!i+3]) land 0x3F) in
      if v < 0x10000 || v > 0x10FFFF then (out := 0xFFFD :: !out; incr i)
      else (out := v :: !out; i := !i + 4) end
    else (out := 0xFFFD :: !out; incr i)
  done;
  List.rev !out

let encode_utf8 (l : int list) : string =
  let b = Buffer.create 64 in
  List.iter (fun c ->
    let c = if c > 0x10FFFF || (c >= 0xD800 && c <= 0xDFFF) then 0xFFFD else c in
    if c < 0x80 then Buffer.add_char b (Char.chr c)
    else if c < 0x800 then begin
      Buffer.add_char b (Char.chr (0xC0 lor (c lsr 6)));
      Buffer.add_char b (Char.chr (0x80 lor (c land 0x3F))) end
    else if c < 0x10000 then begin
      Buffer.add_char b (Char.chr (0xE0 lor (c lsr 12)));
      Buffer.add_char b (Char.chr (0x80 lor ((c lsr 6) land 0x3F)));
      Buffer.add_char b (Char.chr (0x80 lor (c land 0x3F))) end
    else begin
      Buffer.add_char b (Char.chr (0xF0 lor (c lsr 18)));
      Buffer.add_char b (Char.chr (0x80 lor ((c lsr 12) land 0x3F)));
      Buffer.add_char b (Char.chr (0x80 lor ((c lsr 6) land 0x3F)));
      Buffer.add_char b (Char.chr (0x80 lor (c land 0x3F))) end) l;
  Buffer.contents b

let str_of_string (s : string) : str = List.map n_of_int (decode_utf8 s)
let string_of_str (s : str) : string = encode_utf8 (List.map int_of_n s)

let unhex (h : string) : string =
  let n = String.length h / 2 in
  String.init n (fun i -> Char.chr (int_of_string ("0x" ^ String.sub h (2*i) 2)))
let hx (s : string) : string =
  let b = Buffer.create (2 * String.length s) in
  String.iter (fun c -> Buffer.add_string b (Printf.sprintf "%02x" (Char.code c))) s;
  Buffer.contents b
let hxs (s : str) : string = hx (string_of_str s)

let parse_line (line : string) : (string * string) list =
  List.filter_map (fun f ->
    match String.index_opt f '=' with
    | None -> None
    | Some i -> Some (String.sub f 0 i, String.sub f (i+1) (String.length f - i - 1)))
    (String.split_on_char '\t' line)
let field c k = try List.assoc k c with Not_found -> ""

(* ---------- oracles: Go standard-library behaviour (trusted) ---------- *)
let is_digit_c c = c >= '0' && c <= '9'
(* strconv.ParseFloat for plain decimal spellings [+-]d*[.d*][e[+-]d+]; anything
   else (inf, nan, hex floats, underscores) is unknown to this oracle *)
let go_parse_float (s : string) : float option option =
  let n = String.length s in
  let i = ref 0 in
  if !i < n && (s.[!i] = '+' || s.[!i] = '-') then incr i;
  let d0 = !i in
  while !i < n && is_digit_c s.[!i] do incr i done;
  let nd = ref (!i - d0) in
  if !i < n && s.[!i] = '.' then begin
    incr i; let d1 = !i in
    while !i < n && is_digit_c s.[!i] do incr i done;
    nd := !nd + (!i - d1) end;
  let ok = ref (!nd > 0) in
  if !ok && !i < n && (s.[!i] = 'e' || s.[!i] = 'E') then begin
    incr i;
    if !i < n && (s.[!i] = '+' || s.[!i] = '-') then incr i;
    let d2 = !i in
    while !i < n && is_digit_c s.[!i] do incr i done;
    if !i = d2 then ok := false end;
  if !ok && !i = n then begin
    let f = float_of_string s in
    if Float.is_integer f || true then
      (if Float.abs f = Float.infinity then Some None (* out of range: Go reports an error *) else Some (Some f))
    else None end
  else begin
    (* decide between "syntax error" (plain garbage) and "unknown" (forms Go accepts that we do not model) *)
    let lower = String.lowercase_ascii s in
    let has sub = try ignore (Str.search_forward (Str.regexp_string sub) lower 0); true with Not_found -> false in
    if n = 0 then Some None
    else if has "inf" || has "nan" || has "0x" || has "_" || has "p" then None
    else Some None
  end

let parse_float_oracle (s : str) =
  match go_parse_float (string_of_str s) with
  | None -> None
  | Some None -> Some None
  | Some (Some f) -> Some (Some (Float64.of_float f))

let float_bits (f : float) : string = Printf.sprintf "%016Lx" (Int64.bits_of_float f)

(* ---------- canonical AST dump (same format as harness/astdump.go) ---------- *)
let op_lit (t : tokty) : string = match t with TIn -> "in" | _ -> string_of_str (tokty_name t)
let rec z_to_string (z : z) : string =
  let rec pos_to_z p = match p with XH -> BigZ.one | XO p -> BigZ.mul (BigZ.of_int 2) (pos_to_z p) | XI p -> BigZ.add BigZ.one (BigZ.mul (BigZ.of_int 2) (pos_to_z p)) in
  match z with Z0 -> "0" | Zpos p -> BigZ.to_string (pos_to_z p) | Zneg p -> "-" ^ BigZ.to_string (pos_to_z p)

let rec dump_expr (b : Buffer.t) (e : expr) : unit =
  let add = Buffer.add_string b in
  match e with
  | EInt (t, v) -> add (Printf.sprintf "(int %s %s)" (hxs t) (z_to_string v))
  | EFloat (t, f) -> add (Printf.sprintf "(float %s %s)" (hxs t) (float_bits (Float64.to_float f)))
  | EStr s -> add (Printf.sprintf "(str %s)" (hxs s))
  | EBool true -> add "(bool 1)"
  | EBool false -> add "(bool 0)"
  | ERegexp (v, fl) -> add (Printf.sprintf "(re %s %s)" (hxs v) (hxs fl))
  | EIdent n -> add (Printf.sprintf "(id %s)" (hxs n))
  | EPrefix (op, r) -> add (Printf.sprintf "(pre %s " (hx (op_lit op))); dump_expr b r; add ")"
  | EInfix (op, l, r) -> add (Printf.sprintf "(in %s " (hx (op_lit op))); dump_expr b l; add " "; dump_expr b r; add ")"
  | EPostfix (n, op) -> add (Printf.sprintf "(post %s %s)" (hxs n) (hx (op_lit op)))
  | ETernary (c, t, f) -> add "(tern "; dump_expr b c; add " "; dump_expr b t; add " "; dump_expr b f; add ")"
  | EArray l -> add "(arr"; List.iter (fun x -> add " "; dump_expr b x) l; add ")"
  | EHash l -> add "(hash"; List.iter (fun (k, v) -> add " ("; dump_expr b k; add " "; dump_expr b v; add ")") l; add ")"
  | EIndex (l, i) -> add "(idx "; dump_expr b l; add " "; dump_expr b i; add ")"
  | ECall (f, args) -> add "(call "; dump_expr b f; List.iter (fun x -> add " "; dump_expr b x) args; add ")"
  | EAssign (n, v) -> add (Printf.sprintf "(assign %s " (hxs n)); dump_expr b v; add ")"
  | ELocal n -> add (Printf.sprintf "(local %s)" (hxs n))
  | EIf (c, cons, alt) ->
    add "(if "; dump_expr b c; add " "; dump_block b cons;
    (match alt with None -> add " noelse" | Some a -> add " "; dump_block b a); add ")"
  | EWhile (c, body) -> add "(while "; dump_expr b c; add " "; dump_block b body; add ")"
  | EForeach (idx, id, v, body) ->
    add (Printf.sprintf "(foreach %s %s " (hxs idx) (hxs id)); dump_expr b v; add " "; dump_block b body; add ")"
  | EFunction (n, ps, body) ->
    add (Printf.sprintf "(fn %s (%s) " (hxs n) (String.concat " " (List.map hxs ps))); dump_block b body; add ")"
  | ESwitch (v, cs) ->
    add "(switch "; dump_expr b v;
    List.iter (fun ((d, es), blk) ->
      add " (case";
      if d then add " default" else List.iter (fun x -> add " "; dump_expr b x) es;
      add " "; dump_block b blk; add ")") cs;
    add ")"
and dump_stmt b = function
  | SReturn e -> Buffer.add_string b "(ret "; dump_expr b e; Buffer.add_string b ")"
  | SExpr e -> Buffer.add_string b "(es "; dump_expr b e; Buffer.add_string b ")"
and dump_block b l =
  Buffer.add_string b "(block"; List.iter (fun s -> Buffer.add_char b ' '; dump_stmt b s) l; Buffer.add_string b ")"
let dump_program (p : stmt list) : string =
  let b = Buffer.create 256 in
  Buffer.add_string b "(prog"; List.iter (fun s -> Buffer.add_char b ' '; dump_stmt b s) p; Buffer.add_string b ")";
  Buffer.contents b

(* ---------- big integers <-> extracted Z ---------- *)
let rec pos_of_bigz (b : BigZ.t) : positive =
  if BigZ.equal b BigZ.one then XH
  else if BigZ.is_even b then XO (pos_of_bigz (BigZ.shift_right b 1))
  else XI (pos_of_bigz (BigZ.shift_right b 1))
let z_of_bigz (b : BigZ.t) : z =
  if BigZ.sign b = 0 then Z0 else if BigZ.sign b > 0 then Zpos (pos_of_bigz b) else Zneg (pos_of_bigz (BigZ.neg b))
let z_of_string (s : string) : z = z_of_bigz (BigZ.of_string s)
let rec bigz_of_pos p = match p with XH -> BigZ.one | XO p -> BigZ.shift_left (bigz_of_pos p) 1 | XI p -> BigZ.succ (BigZ.shift_left (bigz_of_pos p) 1)
let bigz_of_z = function Z0 -> BigZ.zero | Zpos p -> bigz_of_pos p | Zneg p -> BigZ.neg (bigz_of_pos p)
let rec nat_of_int (i : int) : nat = if i <= 0 then O else S (nat_of_int (i - 1))

(* ---------- strconv.FormatFloat(f, 'f', -1, 64) ---------- *)
let go_format_float (f : float) : string =
  if Float.is_nan f then "NaN"
  else if f = Float.infinity then "+Inf"
  else if f = Float.neg_infinity then "-Inf"
  else if f = 0.0 then (if 1.0 /. f < 0.0 then "-0" else "0")
  else begin
    let neg = f < 0.0 in
    let a = Float.abs f in
    (* shortest digits that round-trip *)
    let rec find p =
      let s = Printf.sprintf "%.*e" (p - 1) a in
      if p >= 17 || float_of_string s = a then s else find (p + 1) in
    let s = find 1 in
    (* s = d.ddddde[+-]XX *)
    let epos = String.index s 'e' in
    let mant = String.sub s 0 epos in
    let exp = int_of_string (String.sub s (epos + 1) (String.length s - epos - 1)) in
    let digits = String.concat "" (String.split_on_char '.' mant) in
    (* strip trailing zeros of the digit string *)
    let n = ref (String.length digits) in
    while !n > 1 && digits.[!n - 1] = '0' do decr n done;
    let digits = String.sub digits 0 !n in
    let nd = String.length digits in
    let point = exp + 1 in   (* position of the decimal point relative to digits *)
    let body =
      if point <= 0 then "0." ^ String.make (-point) '0' ^ digits
      else if point >= nd then digits ^ String.make (point - nd) '0'
      else String.sub digits 0 point ^ "." ^ String.sub digits point (nd - point) in
    (if neg then "-" else "") ^ body
  end

(* ---------- value / host value / program codecs (same as harness/run.go) ---------- *)
let split_top (s : string) (sep : char) : string list =
  if s = "" then [] else begin
    let out = ref [] and depth = ref 0 and start = ref 0 in
    String.iteri (fun i c ->
      if c = '(' then incr depth else if c = ')' then decr depth
      else if c = sep && !depth = 0 then begin
        out := String.sub s !start (i - !start) :: !out; start := i + 1 end) s;
    out := String.sub s !start (String.length s - !start) :: !out;
    List.rev !out end

let inner (s : string) (skip : int) : string = String.sub s skip (String.length s - skip - 1)
let float_of_bits (h : string) : Float64.t = Float64.of_float (Int64.float_of_bits (Int64.of_string ("0x" ^ h)))
let bits_of_float (f : Float64.t) : string =
  let x = Float64.to_float f in if Float.is_nan x then "NaN" else float_bits x

let ora : (string, unit) Hashtbl.t = Hashtbl.create 64
let ora_match : (string * string, string) Hashtbl.t = Hashtbl.create 64
let ora_repl : (string * string * string, string) Hashtbl.t = Hashtbl.create 64
let ora_lower : (string, string) Hashtbl.t = Hashtbl.create 64
let ora_upper : (string, string) Hashtbl.t = Hashtbl.create 64
let load_oracle (s : string) =
  Hashtbl.reset ora_match; Hashtbl.reset ora_repl; Hashtbl.reset ora_lower; Hashtbl.reset ora_upper;
  if s <> "" then
  List.iter (fun f ->
    match String.split_on_char ':' f with
    | ["m"; re; str; r] -> Hashtbl.replace ora_match (re, str) r
    | ["x"; str; re; rp; r] -> Hashtbl.replace ora_repl (str, re, rp) r
    | ["l"; a; b] -> Hashtbl.replace ora_lower a b
    | ["u"; a; b] -> Hashtbl.replace ora_upper a b
    | _ -> ()) (String.split_on_char ';' s)

let case_tz = ref ""
let stdlib_oracle : stdlib = {
  fmt_float = (fun f -> Some (str_of_string (go_format_float (Float64.to_float f))));
  parse_float = parse_float_oracle;
  pow_float = (fun a b ->
    (* exact cases only: small integer base and exponent with an exactly representable result *)
    let a = Float64.to_float a and b = Float64.to_float b in
    if a = 0.0 && Float.is_integer b && b >= 0.0 && b <= 64.0 then
      (* math.Pow(+-0, y): 1 for y = 0, +-0 for odd y, +0 for even y *)
      Some (Float64.of_float (if b = 0.0 then 1.0 else if Float.rem b 2.0 <> 0.0 then a else 0.0))
    else if Float.is_integer a && Float.is_integer b && b >= 0.0 && b <= 64.0 && Float.abs a <= 1048576.0 then begin
      let r = BigZ.pow (BigZ.of_float a) (int_of_float b) in
      if BigZ.lt (BigZ.abs r) (BigZ.of_string "9007199254740992") then Some (Float64.of_float (BigZ.to_float r)) else None end
    else None);
  re_match = (fun re s ->
    match Hashtbl.find_opt ora_match (hxs re, hxs s) with
    | Some "1" -> Some (Some true) | Some "0" -> Some (Some false) | Some "e" -> Some None | _ -> None);
  re_replace = (fun s re rp ->
    match Hashtbl.find_opt ora_repl (hxs s, hxs re, hxs rp) with
    | Some "e" -> Some None | Some r -> Some (Some (str_of_string (unhex r))) | None -> None);
  to_lower = (fun s -> match Hashtbl.find_opt ora_lower (hxs s) with Some r -> Some (str_of_string (unhex r)) | None -> None);
  to_upper = (fun s -> match Hashtbl.find_opt ora_upper (hxs s) with Some r -> Some (str_of_string (unhex r)) | None -> None);
  trim_space = (fun _ -> None);
  sprintf = (fun _ _ -> None);
  getenv = (fun _ -> None);
  tz_fields = (fun t ->
    let b = bigz_of_z t in
    if !case_tz <> "" && !case_tz <> "UTC" then None
    else if BigZ.gt (BigZ.abs b) (BigZ.of_string "100000000000") then None else Some (utc_fields t));
}

let rec enc_value (v : value) : string =
  match v with
  | VInt z -> "i" ^ z_to_string z
  | VFloat f -> "f" ^ bits_of_float f
  | VStr s -> "s" ^ hxs s
  | VBool true -> "b1" | VBool false -> "b0"
  | VNull -> "n" | VVoid -> "v"
  | VRegexp s -> "r" ^ hxs s
  | VArray l -> "a(" ^ String.concat "," (List.map enc_value l) ^ ")"
  | VHash l -> "h(" ^ String.concat "," (List.sort compare (List.map (fun (k, x) -> enc_value k ^ "=" ^ enc_value x) l)) ^ ")"
  | VIter (v, _) -> enc_value v

let rec dec_value (s : string) : value =
  match s.[0] with
  | 'i' -> VInt (z_of_string (String.sub s 1 (String.length s - 1)))
  | 'f' -> if s = "fNaN" then VFloat (Float64.of_float Float.nan) else VFloat (float_of_bits (String.sub s 1 16))
  | 's' -> VStr (str_of_string (unhex (String.sub s 1 (String.length s - 1))))
  | 'b' -> VBool (s.[1] = '1')
  | 'n' -> VNull | 'v' -> VVoid
  | 'r' -> VRegexp (str_of_string (unhex (String.sub s 1 (String.length s - 1))))
  | 'a' -> VArray (List.map dec_value (split_top (inner s 2) ','))
  | 'h' ->
    let pairs = List.map (fun p -> match split_top p '=' with [k; v] -> (dec_value k, dec_value v) | _ -> failwith "bad hash") (split_top (inner s 2) ',') in
    VHash (List.fold_left (fun acc (k, v) ->
      match hash_key stdlib_oracle k with
      | Some (Some hk) -> (match hash_put stdlib_oracle acc hk k v with Some a -> a | None -> acc)
      | _ -> acc) [] pairs)
  | _ -> failwith ("bad value " ^ s)

let rec dec_host (s : string) : hostval =
  let rest k = String.sub s k (String.length s - k) in
  let bits_val str = match String.split_on_char '.' str with [b; v] -> (b, v) | _ -> failwith "bad host" in
  match s.[0] with
  | 'N' -> HNil
  | 'I' -> let (b, v) = bits_val (rest 1) in HInt (n_of_int (int_of_string b), z_of_string v)
  | 'U' -> let (b, v) = bits_val (rest 1) in HUint (n_of_int (int_of_string b), z_of_string v)
  | 'F' -> let (b, v) = bits_val (rest 1) in
    let f = Int64.float_of_bits (Int64.of_string ("0x" ^ v)) in
    let f = if b = "32" then Int32.float_of_bits (Int32.bits_of_float f) else f in
    HFloat (n_of_int (int_of_string b), Float64.of_float f)
  | 'S' -> HString (str_of_string (unhex (rest 1)))
  | 'B' -> HBool (s.[1] = '1')
  | 'T' -> HTime (z_of_string (rest 1))
  | 'L' ->
    let parts = split_top (inner s 3) ',' in
    if s.[1] = 't' then begin
      (* typed slice: elements of another dynamic type than the first are not representable *)
      match parts with
      | [] -> HSlice []
      | p0 :: _ ->
        let tag x = (match x with 'I' | 'U' | 'F' -> true | _ -> false) in
        let ty p = if tag p.[0] then String.sub p 0 (String.index p '.') else String.make 1 p.[0] in
        HSlice (List.map dec_host (List.filter (fun p -> ty p = ty p0 && p.[0] <> 'N') parts)) end
    else HSlice (List.map dec_host parts)
  | 'M' -> HMapIface (List.map (fun p -> match split_top p '=' with [k; v] -> (str_of_string (unhex k), dec_host v) | _ -> failwith "bad map") (split_top (inner s 2) ','))
  (* a map[interface{}]interface{} with string keys and keys of other kinds, used as the OBJECT of a run only: field lookup
     considers its string keys and nothing else, so for the model it is its string-keyed part *)
  | 'J' -> HMapIface (List.map (fun p -> match split_top p '=' with [k; v] -> (str_of_string (unhex k), dec_host v) | _ -> failwith "bad map") (split_top (inner s 2) ','))
  | 'O' ->
    let pairs = List.map (fun p -> match split_top p '=' with [k; v] -> (dec_host k, dec_host v) | _ -> failwith "bad map") (split_top (inner s 3) ',') in
    if s.[1] = '0' then
      (* map[string]string: fmt.Sprint of key and value *)
      HMapIface (List.map (fun (k, v) -> match k, v with
                            | HString ks, HString vs -> (ks, HString vs)
                            | _ -> failwith "O0 expects string keys and values") pairs)
    else
      (* map[int]interface{} keyed by position *)
      HMapOther (n_of_int 1, List.mapi (fun i (_, v) -> (HInt (N0, z_of_string (string_of_int i)), v)) pairs)
  | 'R' -> HStruct (List.map (fun p -> match split_top p '=' with [k; v] -> (str_of_string (unhex k), dec_host v) | _ -> failwith "bad struct") (split_top (inner s 2) ','))
  | 'P' -> HPtr (dec_host (inner s 2))
  | 'Q' -> HNilPtr
  | 'c' | 'n' ->
    (* 'c': a map which contains itself - unrolled far beyond the machine's nesting limit; 'n<k>': maps nested k deep *)
    let one = HInt (N0, z_of_string "1") in
    let k = if s.[0] = 'c' then 5200 else int_of_string (String.sub s 1 (String.length s - 1)) in
    let leaf = if s.[0] = 'c' then HMapIface [(str_of_string "a", one)]
               else HMapIface [(str_of_string "a", one); (str_of_string "leaf", HInt (N0, z_of_string "7"))] in
    let rec nest i acc = if i = 0 then acc else nest (i - 1) (HMapIface [(str_of_string "a", one); (str_of_string "self", acc)]) in
    nest k leaf
  | 'K' ->
    (* the static struct types of harness/hosttypes.go, as a script may see them: exported fields and
       unexported fields of readable kinds by value; everything reflection refuses to hand over is null *)
    let body = inner s 3 in
    let (nm, cnt) = (match String.index_opt body ',' with
                     | Some i -> (String.sub body 0 i, String.sub body (i + 1) (String.length body - i - 1))
                     | None -> failwith "bad static host value") in
    let f k v = (str_of_string k, v) in
    let name = HString (str_of_string (unhex nm)) and count = HInt (N0, z_of_string cnt) in
    let i n = HInt (N0, z_of_string (string_of_int n)) in
    (match s.[1] with
     | '1' -> HStruct [f "Name" name; f "Count" count; f "priv" (i 3); f "secret" (HString (str_of_string "s3cr3t"));
                       f "ratio" (dec_host "F64.4004000000000000"); f "flag" (HBool true)]
     | '2' -> HStruct [f "Name" name; f "Count" count; f "p" HOther; f "when" HOther; f "inn" HOther; f "i" HOther]
     | '3' -> HStruct [f "Name" name; f "l" HOther;
                       f "m" (HMapIface [(str_of_string "a", i 1); (str_of_string "b", HOther); (str_of_string "c", HOther);
                                          (str_of_string "d", HString (str_of_string "x"))]);
                       f "s" HOther; f "Count" count]
     | '4' -> HStruct [f "privInner" HOther; f "Name" name; f "Count" count]
     | '5' -> HPtr (HStruct [f "ID" count; f "PubInner" HOther; f "Name" name])
     | '6' -> let shared = HMapIface [(str_of_string "city", name); (str_of_string "zip", count)] in
              HStruct [f "Name" name; f "Billing" shared; f "Shipping" shared; f "NilA" (HMapIface []); f "NilB" (HMapIface []); f "Count" count]
     | '7' -> let shared = HMapIface [(str_of_string "city", name); (str_of_string "zip", count)] in
              HMapIface [(str_of_string "Name", name); (str_of_string "Count", count); (str_of_string "x", shared);
                         (str_of_string "y", shared); (str_of_string "z", HMapIface [(str_of_string "inner", shared)])]
     (* a record with methods: methods are not fields *)
     | '8' -> HStruct [f "Name" name; f "Count" count]
     | '9' -> HPtr (HStruct [f "Name" name; f "Count" count])
     | _ -> failwith "bad static host value")
  | 'm' | 'o' -> HMapIface []        (* a nil map reads as an empty one *)
  | 'l' | 'y' -> HSlice []           (* a nil slice reads as an empty one *)
  | 'X' -> HIface (dec_host (inner s 2))
  | 'Z' -> HOther
  | _ -> failwith ("bad host value " ^ s)

let hex_of_code (l : n list) : string =
  let b = Buffer.create (2 * List.length l) in
  List.iter (fun x -> Buffer.add_string b (Printf.sprintf "%02x" (int_of_n x))) l; Buffer.contents b

let enc_program (p : program_code) : string =
  let fs = List.sort compare (List.map (fun (n, f) ->
    hxs n ^ "." ^ String.concat "_" (List.map hxs f.fparams) ^ "." ^ hex_of_code f.fcode) p.pfuncs) in
  "C" ^ String.concat "," (List.map enc_value p.pconsts) ^ "~M" ^ hex_of_code p.pmain ^ "~F" ^ String.concat "+" fs

let class_name = function
  | ROk -> "ok" | RScriptError -> "script-error" | RInternalError -> "internal-error"
  | RTimeout -> "timeout" | RPanicRecovered -> "panic-recovered" | RCrash -> "crash"

let enc_trace (tr : call list) : string =
  String.concat "+" (List.map (fun c -> hxs c.cname ^ "(" ^ String.concat "," (List.map enc_value c.cargs) ^ ")") tr)
let enc_vars (vars : (str * value) list) : string =
  String.concat "&" (List.sort compare (List.map (fun (n, v) -> hxs n ^ "=" ^ enc_value v) vars))
let rec int_of_nat = function O -> 0 | S n -> 1 + int_of_nat n

let dec_op (objs : hostval array) (s : string) : op =
  let p = Array.of_list (String.split_on_char ':' s) in
  let obj k = if k < Array.length objs then objs.(k) else HNil in
  match p.(0) with
  | "setvar" -> OSetVar (str_of_string (unhex p.(1)), dec_value p.(2))
  | "addfn" ->
    let k = match p.(2) with
      | "arg0" -> HKArg0 | "void" -> HKVoid | "panic" -> HKPanic
      | c -> HKConst (dec_value (String.sub c 1 (String.length c - 1))) in
    OAddFn (str_of_string (unhex p.(1)), k)
  | "ctx" -> OCtx (if p.(1) = "none" then None else Some (n_of_int (int_of_string p.(1))))
  | "prepare" -> OPrepare (p.(1) <> "noopt")
  | "run" -> ORun (obj (if Array.length p > 1 then int_of_string p.(1) else 0))
  | "exec" -> OExec (obj (if Array.length p > 1 then int_of_string p.(1) else 0))
  (* pexec:<hex name>,<n>: the host changes its one record in place and passes the same pointer again - for the model a run
     on a record with these contents (static host type K5) *)
  | "pexec" -> OExec (dec_host ("K5(" ^ p.(1) ^ ")"))
  | "getvar" -> OGetVar (str_of_string (unhex p.(1)))
  | "dump" -> ODump
  | "badprepare" -> ODump       (* a Prepare that fails leaves the evaluator as it was: a step without effect *)
  | x -> failwith ("bad op " ^ x)

let enc_opres (r : opres) : string =
  match r with
  | RPrepared (false, _, _) -> "P|error"
  | RPrepared (true, Some u, Some p) -> "P|ok|" ^ enc_program u ^ "|" ^ enc_program p
  | RPrepared (true, _, _) -> "P|ok"
  | RExec (c, v, tr, vars, ns, rs) ->
    Printf.sprintf "E|%s|%s|%s|%s|%d|%d" (class_name c) (enc_value v) (enc_trace tr) (enc_vars vars) (int_of_nat ns) (int_of_nat rs)
  | RRun (c, b, tr, vars, ns, rs) ->
    Printf.sprintf "R|%s|%s|%s|%s|%d|%d" (class_name c) (if b then "b1" else "b0") (enc_trace tr) (enc_vars vars) (int_of_nat ns) (int_of_nat rs)
  | RGet v -> "G|" ^ enc_value v
  | RUnit -> "U"
  | RCrashed -> "X"
  | RNeed -> "N"
  | RFuel -> "Q"

let default_fuel = ref 200000

let run_history_case c =
  load_oracle (field c "ora");
  case_tz := field c "tz";
  let src = str_of_string (unhex (field c "script")) in
  let objs = Array.of_list (List.map dec_host (if field c "objs" = "" then [] else split_top (field c "objs") ';')) in
  let ops = if field c "ops" = "" then ["prepare:opt"; "exec:0"] else String.split_on_char ';' (field c "ops") in
  (* `rescript:<hex>`: the host assigns the public Script field of the evaluator (nothing else changes; the next Prepare
     compiles the new text).  Glue, not model: the evaluator record gets the new script text. *)
  let is_rescript s = String.length s > 9 && String.sub s 0 9 = "rescript:" in
  let ops = List.map (fun s -> if is_rescript s then (Some (str_of_string (unhex (String.sub s 9 (String.length s - 9)))), ODump)
                               else (None, dec_op objs s)) ops in
  let fuel = nat_of_int (match int_of_string_opt (field c "fuel") with Some n when n > 0 -> n | _ -> !default_fuel) in
  (* the reference interpreter (Spec/Exec.v) on the syntax tree, from the same state, for every Execute/Run *)
  let spec_of (e : eval) (ob : hostval) : string =
    match e.emachine with
    | None -> "na"
    | Some mc ->
      (match parse_script parse_float_oracle max_depth e.escript with
       | ParseOk ast ->
         let m0 = { stk = []; menv = e.eenv; trace = []; polls = mc.mctx } in
         if mc.mctx <> None || mc.mprog.pmain = [] then "na" else   (* VM.Run refuses an empty program before interpreting anything *)
         (match sblock stdlib_oracle e.efns ob (collect_block (nat_of_int 4000) ast []) fuel ast m0 with
          | XNormal m -> Printf.sprintf "ok|n|%s|%s" (enc_trace (List.rev m.trace)) (enc_vars m.menv.globals)
          | XReturn (v, m) -> Printf.sprintf "ok|%s|%s|%s" (enc_value v) (enc_trace (List.rev m.trace)) (enc_vars m.menv.globals)
          | XErr (ENeedOracle, _) | XErr (EFuel, _) -> "na"
          | XErr (x, m) ->
            let c = (match x with EScript -> "script-error" | EInternal -> "internal-error" | ETimeout -> "timeout"
                              | EPanic -> "panic-recovered" | _ -> "other") in
            Printf.sprintf "%s|n|%s|%s" c (enc_trace (List.rev m.trace)) (enc_vars m.menv.globals))
       | _ -> "na") in
  let rec loop (e : eval) (ops : (str option * op) list) (i : int) (acc : string list) (specs : string list) =
    match ops with
    | [] -> (List.rev acc, List.rev specs)
    | (Some newsrc, _) :: rest ->
      loop { e with escript = newsrc } rest (i + 1) (Printf.sprintf "o%d=%s" i (enc_opres RUnit) :: acc) specs
    | (None, x) :: rest ->
      let sp = (match x with
                | OExec ob | ORun ob -> [Printf.sprintf "s%d=%s" i (spec_of e ob)]
                | _ -> []) in
      let (r, e') = step stdlib_oracle fuel e x in
      let acc' = Printf.sprintf "o%d=%s" i (enc_opres r) :: acc in
      (match r with
       | RNeed | RFuel -> (List.rev acc', List.rev specs)
       | _ -> loop e' rest (i + 1) acc' (sp @ specs)) in
  let (parts, specs) = loop (new_eval src) ops 0 [] [] in
  Printf.printf "id=%s\tn=%d\t%s%s\n" (field c "id") (List.length parts) (String.concat "\t" parts)
    (if specs = [] then "" else "\t" ^ String.concat "\t" specs)

(* ---------- case kinds ---------- *)
let lex_case c =
  let src = str_of_string (unhex (field c "script")) in
  match lex src with
  | None -> Printf.printf "id=%s\ttokens=FUEL\n" (field c "id")
  | Some ts ->
    let f t =
      let lit = match t.tty with TIllegal -> [] | _ -> t.tlit in
      hxs (tokty_name t.tty) ^ ":" ^ hxs lit in
    Printf.printf "id=%s\ttokens=%s\n" (field c "id") (String.concat "," (List.map f ts))

let parse_case c =
  let src = str_of_string (unhex (field c "script")) in
  match parse_script parse_float_oracle max_depth src with
  | ParseOk p -> Printf.printf "id=%s\tparse=ok\tast=%s\n" (field c "id") (dump_program p)
  | ParseReject -> Printf.printf "id=%s\tparse=reject\n" (field c "id")
  | ParseNeed -> Printf.printf "id=%s\tneed=parse\n" (field c "id")
  | ParseFuel -> Printf.printf "id=%s\tfuel=parse\n" (field c "id")

(* verify: run the proved-in-Coq byte-code verifier on a program as Go produced it *)
let code_of_hex (h : string) : n list =
  List.init (String.length h / 2) (fun i -> n_of_int (int_of_string ("0x" ^ String.sub h (2*i) 2)))
let dec_program (s : string) : program_code =
  (* C<v,v..>~M<hex>~F<namehex>.<p1_p2>.<hex>+... *)
  match Str.split_delim (Str.regexp "~") s with
  | [c; m; f] ->
    let consts = List.map dec_value (split_top (String.sub c 1 (String.length c - 1)) ',') in
    let main = code_of_hex (String.sub m 1 (String.length m - 1)) in
    let fs = String.sub f 1 (String.length f - 1) in
    let funcs = if fs = "" then [] else List.map (fun x ->
      match String.split_on_char '.' x with
      | [nm; ps; body] ->
        (str_of_string (unhex nm),
         { fparams = (if ps = "" then [] else List.map (fun p -> str_of_string (unhex p)) (String.split_on_char '_' ps));
           fcode = code_of_hex body })
      | _ -> failwith "bad function") (String.split_on_char '+' fs) in
    { pconsts = consts; pmain = main; pfuncs = funcs }
  | _ -> failwith "bad program"
let reason_string = function
  | VUnknownOpcode ip -> Printf.sprintf "unknown-opcode@%d" (int_of_n ip)
  | VTruncated ip -> Printf.sprintf "truncated-operand@%d" (int_of_n ip)
  | VBadJump ip -> Printf.sprintf "bad-jump@%d" (int_of_n ip)
  | VBadConstant ip -> Printf.sprintf "bad-constant@%d" (int_of_n ip)
  | VNameNotString ip -> Printf.sprintf "name-not-string@%d" (int_of_n ip)
  | VUnderflow ip -> Printf.sprintf "underflow@%d" (int_of_n ip)
  | VNotInductive ip -> Printf.sprintf "not-inductive@%d" (int_of_n ip)
  | VFallsOff -> "function-falls-off-its-end"
  | VNoFixpoint -> "no-fixpoint"
  | VIterNoJump ip -> Printf.sprintf "iteration-without-jump@%d" (int_of_n ip)
let verify_case c =
  let v = match verify_program (dec_program (field c "prog")) with VOk -> "ok" | VBad r -> "bad:" ^ reason_string r in
  let moded = if field c "script" = "" then "" else
    (match parse_script parse_float_oracle max_depth (str_of_string (unhex (field c "script"))) with
     | ParseOk ast -> if well_moded ast then "\tmoded=1" else "\tmoded=0"
     | _ -> "\tmoded=na") in
  Printf.printf "id=%s\tverify=%s%s\n" (field c "id") v moded

(* translation validation of the implementation's optimizer: the validated optimizer of Model/OptSafe.v,
   run on the implementation's UNOPTIMIZED program, must answer, and answer the implementation's optimized program *)
let validate_case c =
  let u = dec_program (field c "uprog") in
  let v = match optimize_program_safe u with
    | None -> "refused"
    | Some p' -> if enc_program p' = field c "prog" then "ok" else "mismatch:" ^ enc_program p' in
  Printf.printf "id=%s\tvalid=%s\n" (field c "id") v

let run_case c =
  if field c "kind" = "verify" then verify_case c else
  if field c "kind" = "validate" then validate_case c else
  if String.length (field c "script") > 40000 then Printf.printf "id=%s\tneed=big\n" (field c "id") else
  match field c "kind" with
  | "lex" -> lex_case c
  | "parse" -> parse_case c
  | "run" -> run_history_case c
  | k -> Printf.printf "id=%s\tunsupported=%s\n" (field c "id") k

let () =
  let path = Sys.argv.(1) in
  let ic = open_in_bin path in
  (try
    while true do
      let line = input_line ic in
      if String.length line > 0 && line.[0] <> '#' then begin
        let c = parse_line line in
        (try run_case c with
         | Stack_overflow -> Printf.printf "id=%s\tfuel=stack\n" (field c "id")
         | e -> Printf.printf "id=%s\tdriver_error=%s\n" (field c "id") (hx (Printexc.to_string e)))
      end
    done
  with End_of_file -> ());
  close_in ic

(* driver.ml - hand-written glue (trusted): reads a case file, runs the
   extracted model (Model), prints one canonical result line per case.
   Same line formats as the Go harness. *)
module BigZ = Z
open Model
module String = Stdlib.String
module List = Stdlib.List
module Char = Stdlib.Char
type string = String.t

(* ---------- conversions between OCaml ints/strings and extracted N ------- *)
let rec pos_of_int (i : int) : positive =
  if i = 1 then XH
  else if i land 1 = 0 then XO (pos_of_int (i lsr 1))
  else XI (pos_of_int (i lsr 1))
let n_of_int (i : int) : n = if i = 0 then N0 else Npos (pos_of_int i)
let rec int_of_pos = function
  | XH -> 1
  | XO p -> 2 * int_of_pos p
  | XI p -> 2 * int_of_pos p + 1
let int_of_n = function N0 -> 0 | Npos p -> int_of_pos p

(* Go's []rune(string): invalid UTF-8 bytes each become U+FFFD *)
let decode_utf8 (s : string) : int list =
  let n = String.length s in
  let out = ref [] in
  let i = ref 0 in
  let cont k = k < n && (Char.code s.[k]) land 0xC0 = 0x80 in
  while !i < n do
    let c = Char.code s.[!i] in
    if c < 0x80 then (out := c :: !out; incr i)
    else if c >= 0xC2 && c <= 0xDF && cont (!i+1) then begin
      out := (((c land 0x1F) lsl 6) lor ((Char.code s.[!i+1]) land 0x3F)) :: !out; i := !i + 2 end
    else if c >= 0xE0 && c <= 0xEF && cont (!i+1) && cont (!i+2) then begin
      let c1 = Char.code s.[!i+1] in
      let v = ((c land 0x0F) lsl 12) lor ((c1 land 0x3F) lsl 6) lor ((Char.code s.[!i+2]) land 0x3F) in
      if v < 0x800 || (v >= 0xD800 && v <= 0xDFFF) then (out := 0xFFFD :: !out; incr i)
      else (out := v :: !out; i := !i + 3) end
    else if c >= 0xF0 && c <= 0xF4 && cont (!i+1) && cont (!i+2) && cont (!i+3) then begin
      let v = ((c land 0x07) lsl 18) lor (((Char.code s.[!i+1]) land 0x3F) lsl 12)
              lor (((Char.code s.[!i+2]) land 0x3F) lsl 6) lor ((Char.code s.[!i+3]) land 0x3F) in
      if v < 0x10000 || v > 0x10FFFF then (out := 0xFFFD :: !out; incr i)
      else (out := v :: !out; i := !i + 4) end
    else (out := 0xFFFD :: !out; incr i)
  done;
  List.rev !out

let encode_utf8 (l : int list) : string =
  let b = Buffer.create 64 in
  List.iter (fun c ->
    let c = if c > 0x10FFFF || (c >= 0xD800 && c <= 0xDFFF) then 0xFFFD else c in
    if c < 0x80 then Buffer.add_char b (Char.chr c)
    else if c < 0x800 then begin
      Buffer.add_char b (Char.chr (0xC0 lor (c lsr 6)));
      Buffer.add_char b (Char.chr (0x80 lor (c land 0x3F))) end
    else if c < 0x10000 then begin
      Buffer.add_char b (Char.chr (0xE0 lor (c lsr 12)));
      Buffer.add_char b (Char.chr (0x80 lor ((c lsr 6) land 0x3F)));
      Buffer.add_char b (Char.chr (0x80 lor (c land 0x3F))) end
    else begin
      Buffer.add_char b (Char.chr (0xF0 lor (c lsr 18)));
      Buffer.add_char b (Char.chr (0x80 lor ((c lsr 12) land 0x3F)));
      Buffer.add_char b (Char.chr (0x80 lor ((c lsr 6) land 0x3F)));
      Buffer.add_char b (Char.chr (0x80 lor (c land 0x3F))) end) l;
  Buffer.contents b

let str_of_string (s : string) : str = List.map n_of_int (decode_utf8 s)
let string_of_str (s : str) : string = encode_utf8 (List.map int_of_n s)

let unhex (h : string) : string =
  let n = String.length h / 2 in
  String.init n (fun i -> Char.chr (int_of_string ("0x" ^ String.sub h (2*i) 2)))
let hx (s : string) : string =
  let b = Buffer.create (2 * String.length s) in
  String.iter (fun c -> Buffer.add_string b (Printf.sprintf "%02x" (Char.code c))) s;
  Buffer.contents b
let hxs (s : str) : string = hx (string_of_str s)

let parse_line (line : string) : (string * string) list =
  List.filter_map (fun f ->
    match String.index_opt f '=' with
    | None -> None
    | Some i -> Some (String.sub f 0 i, String.sub f (i+1) (String.length f - i - 1)))
    (String.split_on_char '\t' line)
let field c k = try List.assoc k c with Not_found -> ""

(* ---------- oracles: Go standard-library behaviour (trusted) ---------- *)
let is_digit_c c = c >= '0' && c <= '9'
(* strconv.ParseFloat for plain decimal spellings [+-]d*[.d*][e[+-]d+]; anything
   else (inf, nan, hex floats, underscores) is unknown to this oracle *)
let go_parse_float (s : string) : float option option =
  let n = String.length s in
  let i = ref 0 in
  if !i < n && (s.[!i] = '+' || s.[!i] = '-') then incr i;
  let d0 = !i in
  while !i < n && is_digit_c s.[!i] do incr i done;
  let nd = ref (!i - d0) in
  if !i < n && s.[!i] = '.' then begin
    incr i; let d1 = !i in
    while !i < n && is_digit_c s.[!i] do incr i done;
    nd := !nd + (!i - d1) end;
  let ok = ref (!nd > 0) in
  if !ok && !i < n && (s.[!i] = 'e' || s.[!i] = 'E') then begin
    incr i;
    if !i < n && (s.[!i] = '+' || s.[!i] = '-') then incr i;
    let d2 = !i in
    while !i < n && is_digit_c s.[!i] do incr i done;
    if !i = d2 then ok := false end;
  if !ok && !i = n then begin
    let f = float_of_string s in
    if Float.is_integer f || true then
      (if Float.abs f = Float.infinity then Some None (* out of range: Go reports an error *) else Some (Some f))
    else None end
  else begin
    (* decide between "syntax error" (plain garbage) and "unknown" (forms Go accepts that we do not model) *)
    let lower = String.lowercase_ascii s in
    let has sub = try ignore (Str.search_forward (Str.regexp_string sub) lower 0); true with Not_found -> false in
    if n = 0 then Some None
    else if has "inf" || has "nan" || has "0x" || has "_" || has "p" then None
    else Some None
  end

let parse_float_oracle (s : str) =
  match go_parse_float (string_of_str s) with
  | None -> None
  | Some None -> Some None
  | Some (Some f) -> Some (Some (Float64.of_float f))

let float_bits (f : float) : string = Printf.sprintf "%016Lx" (Int64.bits_of_float f)

(* ---------- canonical AST dump (same format as harness/astdump.go) ---------- *)
let op_lit (t : tokty) : string = match t with TIn -> "in" | _ -> string_of_str (tokty_name t)
let rec z_to_string (z : z) : string =
  let rec pos_to_z p = match p with XH -> BigZ.one | XO p -> BigZ.mul (BigZ.of_int 2) (pos_to_z p) | XI p -> BigZ.add BigZ.one (BigZ.mul (BigZ.of_int 2) (pos_to_z p)) in
  match z with Z0 -> "0" | Zpos p -> BigZ.to_string (pos_to_z p) | Zneg p -> "-" ^ BigZ.to_string (pos_to_z p)

let rec dump_expr (b : Buffer.t) (e : expr) : unit =
  let add = Buffer.add_string b in
  match e with
  | EInt (t, v) -> add (Printf.sprintf "(int %s %s)" (hxs t) (z_to_string v))
  | EFloat (t, f) -> add (Printf.sprintf "(float %s %s)" (hxs t) (float_bits (Float64.to_float f)))
  | EStr s -> add (Printf.sprintf "(str %s)" (hxs s))
  | EBool true -> add "(bool 1)"
  | EBool false -> add "(bool 0)"
  | ERegexp (v, fl) -> add (Printf.sprintf "(re %s %s)" (hxs v) (hxs fl))
  | EIdent n -> add (Printf.sprintf "(id %s)" (hxs n))
  | EPrefix (op, r) -> add (Printf.sprintf "(pre %s " (hx (op_lit op))); dump_expr b r; add ")"
  | EInfix (op, l, r) -> add (Printf.sprintf "(in %s " (hx (op_lit op))); dump_expr b l; add " "; dump_expr b r; add ")"
  | EPostfix (n, op) -> add (Printf.sprintf "(post %s %s)" (hxs n) (hx (op_lit op)))
  | ETernary (c, t, f) -> add "(tern "; dump_expr b c; add " "; dump_expr b t; add " "; dump_expr b f; add ")"
  | EArray l -> add "(arr"; List.iter (fun x -> add " "; dump_expr b x) l; add ")"
  | EHash l -> add "(hash"; List.iter (fun (k, v) -> add " ("; dump_expr b k; add " "; dump_expr b v; add ")") l; add ")"
  | EIndex (l, i) -> add "(idx "; dump_expr b l; add " "; dump_expr b i; add ")"
  | ECall (f, args) -> add "(call "; dump_expr b f; List.iter (fun x -> add " "; dump_expr b x) args; add ")"
  | EAssign (n, v) -> add (Printf.sprintf "(assign %s " (hxs n)); dump_expr b v; add ")"
  | ELocal n -> add (Printf.sprintf "(local %s)" (hxs n))
  | EIf (c, cons, alt) ->
    add "(if "; dump_expr b c; add " "; dump_block b cons;
    (match alt with None -> add " noelse" | Some a -> add " "; dump_block b a); add ")"
  | EWhile (c, body) -> add "(while "; dump_expr b c; add " "; dump_block b body; add ")"
  | EForeach (idx, id, v, body) ->
    add (Printf.sprintf "(foreach %s %s " (hxs idx) (hxs id)); dump_expr b v; add " "; dump_block b body; add ")"
  | EFunction (n, ps, body) ->
    add (Printf.sprintf "(fn %s (%s) " (hxs n) (String.concat " " (List.map hxs ps))); dump_block b body; add ")"
  | ESwitch (v, cs) ->
    add "(switch "; dump_expr b v;
    List.iter (fun ((d, es), blk) ->
      add " (case";
      if d then add " default" else List.iter (fun x -> add " "; dump_expr b x) es;
      add " "; dump_block b blk; add ")") cs;
    add ")"
and dump_stmt b = function
  | SReturn e -> Buffer.add_string b "(ret "; dump_expr b e; Buffer.add_string b ")"
  | SExpr e -> Buffer.add_string b "(es "; dump_expr b e; Buffer.add_string b ")"
and dump_block b l =
  Buffer.add_string b "(block"; List.iter (fun s -> Buffer.add_char b ' '; dump_stmt b s) l; Buffer.add_string b ")"
let dump_program (p : stmt list) : string =
  let b = Buffer.create 256 in
  Buffer.add_string b "(prog"; List.iter (fun s -> Buffer.add_char b ' '; dump_stmt b s) p; Buffer.add_string b ")";
  Buffer.contents b

(* ---------- case kinds ---------- *)
let lex_case c =
  let src = str_of_string (unhex (field c "script")) in
  match lex src with
  | None -> Printf.printf "id=%s\ttokens=FUEL\n" (field c "id")
  | Some ts ->
    let f t =
      let lit = match t.tty with TIllegal -> [] | _ -> t.tlit in
      hxs (tokty_name t.tty) ^ ":" ^ hxs lit in
    Printf.printf "id=%s\ttokens=%s\n" (field c "id") (String.concat "," (List.map f ts))

let parse_case c =
  let src = str_of_string (unhex (field c "script")) in
  match parse_script parse_float_oracle max_depth src with
  | ParseOk p -> Printf.printf "id=%s\tparse=ok\tast=%s\n" (field c "id") (dump_program p)
  | ParseReject -> Printf.printf "id=%s\tparse=reject\n" (field c "id")
  | ParseNeed -> Printf.printf "id=%s\tneed=parse\n" (field c "id")
  | ParseFuel -> Printf.printf "id=%s\tfuel=parse\n" (field c "id")

let run_case c =
  match field c "kind" with
  | "lex" -> lex_case c
  | "parse" -> parse_case c
  | k -> Printf.printf "id=%s\tunsupported=%s\n" (field c "id") k

let () =
  let path = Sys.argv.(1) in
  let ic = open_in_bin path in
  (try
    while true do
      let line = input_line ic in
      if String.length line > 0 && line.[0] <> '#' then run_case (parse_line line)
    done
  with End_of_file -> ());
  close_in ic
